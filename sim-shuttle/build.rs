fn main() {
    // std resolves `getrandom` through a weak symbol so that it can be interposed; the harness
    // binaries export their own (see src/seams.rs) to own std's HashMap seeds.
    println!("cargo:rustc-link-arg-bins=-Wl,--export-dynamic-symbol=getrandom");
    println!("cargo:rerun-if-changed=build.rs");
}
