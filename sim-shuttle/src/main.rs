//! adsim-c19 — C19 under shuttle: the real thread-safe build of adblock (sources from /repo with
//! std::sync / std::thread redirected to shuttle) runs N threads x M mixed queries on one shared
//! engine under a seeded scheduler; every answer must equal the sequential one, without deadlock,
//! lock poisoning or two threads inside the regex manager.

#[path = "../../sim/src/rng.rs"]
mod rng;
#[path = "../../sim/src/seams.rs"]
mod seams;
#[path = "../../sim/src/world.rs"]
mod world;
#[path = "../../sim/src/exec.rs"]
#[allow(dead_code)]
mod exec;

use std::collections::{BTreeMap, BTreeSet};
use std::io::Write;
use std::panic::{catch_unwind, AssertUnwindSafe};
use std::sync::Arc;
use std::time::{Duration, Instant};

use adblock::blocker::{Blocker, BlockerOptions};
use adblock::regex_manager::RegexManagerDiscardPolicy;
use adblock::request::Request;
use adblock::resources::ResourceStorage;
use adblock::verif_hooks as vh;
use adblock::Engine;
use serde::{Deserialize, Serialize};
use serde_json::json;

use exec::*;
use rng::{mix3, tag_of, Digest, Rng};
use world::*;

#[global_allocator]
static GLOBAL: seams::SimAlloc = seams::SimAlloc;

#[derive(Clone, Debug, Serialize, Deserialize, PartialEq)]
pub enum Q {
    Net(usize),
    Csp(usize),
    Cos(usize),
    SetPolicy(u64, u64),
    Discard(usize),
    DebugInfo,
}

/// What happens (single-threaded, with exclusive access) after the threads of a phase have joined.
#[derive(Clone, Debug, Serialize, Deserialize, PartialEq)]
pub enum Mutation {
    None,
    UseTags(Vec<String>),
    EnableTags(Vec<String>),
    DisableTags(Vec<String>),
    Optimize,
    /// (engine scenarios) load the image of another rule list: every other rule of the world, reversed
    Reload,
    /// (engine scenarios) replace the resources by the listed subset of the world's resources
    UseResources(Vec<usize>),
    /// several state changes in a row with no query in between (e.g. all tags off, then some on again:
    /// the second rebuild reuses what the first one freed)
    Seq(Vec<Mutation>),
}

#[derive(Clone, Debug, Serialize, Deserialize)]
pub struct Phase {
    pub threads: Vec<Vec<Q>>,
    pub then: Mutation,
}

#[derive(Clone, Debug, Serialize, Deserialize)]
pub struct Scenario {
    pub property: String,
    pub seed: u64,
    pub world: World,
    pub tags: Vec<String>,
    /// true: Arc<Blocker> (also exercises set_regex_discard_policy / discard_regex concurrently)
    pub blocker: bool,
    /// concurrent phases; between two phases the embedder switches tags / optimises
    pub phases: Vec<Phase>,
    pub policy: (u64, u64),
    pub clock_step: u64,
    /// "random" | "pct1" | "pct2" | "pct3"
    pub sched: String,
    pub sched_seed: u64,
    /// true: long-lived worker threads query through `Arc<RwLock<..>>` read locks while a mutator thread
    /// takes the write lock for the phases' mutations (threads of all phases are merged per index)
    #[serde(default)]
    pub rwlock: bool,
    /// a second, independent engine (rules = every other rule of the world) queried concurrently by
    /// its own threads in the first phase
    #[serde(default)]
    pub second_threads: Vec<Vec<Q>>,
    #[serde(default)]
    pub schedule: Option<String>,
    #[serde(default)]
    pub violation: Option<Violation>,
    #[serde(default)]
    pub note: String,
}

fn profile() -> Profile {
    Profile {
        n_rules: (8, 50),
        n_probes: (8, 14),
        p_tag: 55,
        p_regexish: 80,
        cosmetic: true,
        removeparam: true,
        redirect: true,
        csp: true,
        badfilter: true,
        generichide: true,
        perms: false,
        tag_on_modifiers: false,
        extra: 0,
        tiny_patterns: true,
        non_ascii_urls: false,
        hostname_wildcards: false,
    }
}

pub fn generate(seed: u64) -> Scenario {
    let mut w = gen_world(seed, &profile());
    // request twins: the same URL and type asked on behalf of two different pages (one inside, one
    // outside a rule's $domain list where there is such a rule). Threads of one phase ask both at about
    // the same time, so an answer handed from one thread to another shows.
    let mut hot: Vec<(usize, usize)> = vec![];
    {
        let mut hr = Rng::stream(seed, "c19hot");
        let mut cands: Vec<(String, String)> = vec![];
        for rule in &w.rules {
            if let RuleSpec::Net(n) = &rule.spec {
                if let Some(d) = n.opts.iter().find_map(|o| o.strip_prefix("domain=").or_else(|| o.strip_prefix("from="))) {
                    let first = d.split('|').next().unwrap_or("").trim_start_matches('~').to_string();
                    if first.is_empty() || first.contains('*') {
                        continue;
                    }
                    if let Some(url) = url_for_pattern(&mut hr, &n.pat) {
                        cands.push((url, first));
                    }
                }
            }
        }
        hr.shuffle(&mut cands);
        for (url, dom) in cands.into_iter().take(3) {
            let rtype = hr.pick(&["script", "image", "xmlhttprequest", "other"]).to_string();
            let outside = hr.pick(HOSTS).to_string();
            let a = w.probes.len();
            w.probes.push(Probe { url: url.clone(), source: format!("https://{}/", dom), rtype: rtype.clone() });
            w.probes.push(Probe { url, source: format!("https://{}/", outside), rtype });
            hot.push((a, a + 1));
        }
        if !w.probes.is_empty() {
            for _ in 0..2 {
                let i = hr.below(w.probes.len());
                let mut tw = w.probes[i].clone();
                tw.source = format!("https://{}/", hr.pick(HOSTS));
                let b = w.probes.len();
                w.probes.push(tw);
                hot.push((i, b));
            }
        }
    }
    let mut r = Rng::stream(seed, "c19");
    let blocker = r.chance(40);
    let n_phases = match r.below(10) {
        0..=2 => 1,
        3..=6 => 2,
        _ => 3,
    };
    let mut phases = vec![];
    for pi in 0..n_phases {
        let n = r.range(2, 4);
        let mut threads = vec![];
        for _ in 0..n {
            let m = r.range(1, 6);
            let mut qs = vec![];
            for _ in 0..m {
                let q = match r.below(if blocker { 12 } else { 10 }) {
                    0..=5 => Q::Net(r.below(w.probes.len())),
                    6..=7 => Q::Csp(r.below(w.probes.len())),
                    8..=9 => {
                        if blocker {
                            Q::Net(r.below(w.probes.len()))
                        } else {
                            Q::Cos(r.below(w.pages.len()))
                        }
                    }
                    10 => Q::SetPolicy(*r.pick(&[1u64, 1, 1000, 0]), *r.pick(&[0u64, 1, 1000])),
                    _ => {
                        if r.chance(70) {
                            Q::Discard(r.below(32))
                        } else {
                            Q::DebugInfo
                        }
                    }
                };
                qs.push(q);
            }
            threads.push(qs);
        }
        if !hot.is_empty() && r.chance(60) {
            let (a, b) = *r.pick(&hot);
            for (ti, qs) in threads.iter_mut().enumerate() {
                for _ in 0..r.range(1, 2) {
                    let at = r.below(qs.len() + 1);
                    qs.insert(at, Q::Net(if ti % 2 == 0 { a } else { b }));
                }
            }
        }
        let subset = |r: &mut Rng| -> Vec<String> { w.tags.iter().filter(|_| r.chance(50)).cloned().collect() };
        let then = if pi + 1 == n_phases {
            Mutation::None
        } else if r.chance(50) {
            let mut v = vec![if r.chance(60) { Mutation::UseTags(vec![]) } else { Mutation::DisableTags(subset(&mut r)) }];
            for _ in 0..r.range(1, 2) {
                v.push(if r.chance(50) { Mutation::UseTags(subset(&mut r)) } else { Mutation::EnableTags(subset(&mut r)) });
            }
            Mutation::Seq(v)
        } else {
            match r.below(8) {
                0..=3 => Mutation::UseTags(subset(&mut r)),
                4 => Mutation::EnableTags(subset(&mut r)),
                5 => Mutation::DisableTags(subset(&mut r)),
                6 if blocker => Mutation::Optimize,
                6 => Mutation::Reload,
                7 if !blocker => {
                    let mut v: Vec<usize> = (0..w.resources.len()).filter(|_| r.chance(60)).collect();
                    r.shuffle(&mut v);
                    Mutation::UseResources(v)
                }
                _ => Mutation::UseTags(subset(&mut r)),
            }
        };
        phases.push(Phase { threads, then });
    }
    let tags: Vec<String> = w.tags.iter().filter(|_| r.chance(50)).cloned().collect();
    let rwlock = r.chance(35) && std::env::var("ADSIM_C19_NORW").is_err();
    let second_threads: Vec<Vec<Q>> = if r.chance(25) && std::env::var("ADSIM_C19_NO2ND").is_err() {
        (0..r.range(1, 2)).map(|_| (0..r.range(1, 4)).map(|_| Q::Net(r.below(w.probes.len()))).collect()).collect()
    } else {
        vec![]
    };
    let sched = match r.below(6) {
        0..=2 => "random",
        3 => "pct1",
        4 => "pct2",
        _ => "pct3",
    }
    .to_string();
    Scenario {
        property: "C19".into(),
        seed,
        world: w,
        tags,
        blocker,
        phases,
        // half of the scenarios keep compiled regexes alive (default-like policy), half discard aggressively
        policy: if r.chance(50) { (1, *r.pick(&[0u64, 1, 2])) } else { (30_000_000_000, 180_000_000_000) },
        clock_step: *r.pick(&[1u64, 1, 1000, 1_000_000_000]),
        sched,
        sched_seed: r.next(),
        rwlock,
        second_threads,
        schedule: None,
        violation: None,
        note: String::new(),
    }
}

enum Shared {
    Engine(Engine),
    Blocker(Blocker, ResourceStorage),
}
// Engine / Blocker are Send + Sync in this build (static assertion in the crate itself).
fn _assert_sync<T: Send + Sync>() {}
fn _assertions() {
    _assert_sync::<Engine>();
    _assert_sync::<Blocker>();
}

fn build_shared(sc: &Scenario) -> Shared {
    build_shared_rules(sc, &sc.world.rules)
}

/// The second engine of a scenario: every other rule of the world, no tags.
fn second_rules(sc: &Scenario) -> Vec<Rule> {
    sc.world.rules.iter().step_by(2).cloned().collect()
}

fn build_shared_rules(sc: &Scenario, rules: &[Rule]) -> Shared {
    let w = &sc.world;
    let tv: Vec<&str> = sc.tags.iter().map(|s| s.as_str()).collect();
    let pol = RegexManagerDiscardPolicy { cleanup_interval: Duration::from_nanos(sc.policy.0), discard_unused_time: Duration::from_nanos(sc.policy.1) };
    if sc.blocker {
        let filters = parse_net(rules, w.knobs.debug, None);
        let mut b = Blocker::new(filters, &BlockerOptions { enable_optimizations: w.knobs.optimize });
        b.use_tags(&tv);
        b.set_regex_discard_policy(pol);
        Shared::Blocker(b, ResourceStorage::from_resources(w.resources.iter().map(to_resource)))
    } else {
        let fs = build_filter_set(rules, w.knobs.debug, 0, None);
        let mut e = Engine::from_filter_set(fs, w.knobs.optimize);
        e.use_resources(w.resources.iter().map(to_resource));
        e.use_tags(&tv);
        e.set_regex_discard_policy(pol);
        Shared::Engine(e)
    }
}

fn reload_image(sc: &Scenario) -> Vec<u8> {
    let rules: Vec<Rule> = sc.world.rules.iter().rev().step_by(2).cloned().collect();
    let fs = build_filter_set(&rules, sc.world.knobs.debug, 0, None);
    Engine::from_filter_set(fs, sc.world.knobs.optimize).serialize_raw().unwrap_or_default()
}

fn mutate_sc(s: &mut Shared, m: &Mutation, sc: &Scenario) {
    match (s, m) {
        (Shared::Engine(e), Mutation::Reload) => {
            let b = reload_image(sc);
            let _ = seams::track(|| e.deserialize(&b));
        }
        (Shared::Engine(e), Mutation::UseResources(idx)) => {
            let rs: Vec<ResSpec> = idx.iter().filter_map(|i| sc.world.resources.get(*i).cloned()).collect();
            e.use_resources(rs.iter().map(to_resource));
        }
        (s, Mutation::Seq(v)) => {
            for m in v {
                mutate_sc(s, m, sc);
            }
        }
        (s, m) => mutate(s, m),
    }
}

fn mutate(s: &mut Shared, m: &Mutation) {
    let tv = |t: &Vec<String>| -> Vec<String> { t.clone() };
    seams::track(|| match (s, m) {
        (_, Mutation::None) => {}
        (Shared::Engine(e), Mutation::UseTags(t)) => e.use_tags(&tv(t).iter().map(|x| x.as_str()).collect::<Vec<_>>()),
        (Shared::Engine(e), Mutation::EnableTags(t)) => e.enable_tags(&tv(t).iter().map(|x| x.as_str()).collect::<Vec<_>>()),
        (Shared::Engine(e), Mutation::DisableTags(t)) => e.disable_tags(&tv(t).iter().map(|x| x.as_str()).collect::<Vec<_>>()),
        (Shared::Engine(_), Mutation::Optimize) => {}
        (Shared::Blocker(b, _), Mutation::UseTags(t)) => b.use_tags(&tv(t).iter().map(|x| x.as_str()).collect::<Vec<_>>()),
        (Shared::Blocker(b, _), Mutation::EnableTags(t)) => b.enable_tags(&tv(t).iter().map(|x| x.as_str()).collect::<Vec<_>>()),
        (Shared::Blocker(b, _), Mutation::DisableTags(t)) => b.disable_tags(&tv(t).iter().map(|x| x.as_str()).collect::<Vec<_>>()),
        (Shared::Blocker(b, _), Mutation::Optimize) => b.optimize(),
        (_, Mutation::Reload) | (_, Mutation::UseResources(_)) | (_, Mutation::Seq(_)) => {}
    })
}

fn answer(s: &Shared, q: &Q, w: &World, reqs: &[Option<Request>]) -> String {
    match (s, q) {
        (Shared::Engine(e), Q::Net(i)) => reqs[*i].as_ref().map(|r| NetAns::of(&e.check_network_request(r)).show()).unwrap_or_default(),
        (Shared::Engine(e), Q::Csp(i)) => reqs[*i].as_ref().map(|r| format!("{:?}", canon_csp(e.get_csp_directives(r)))).unwrap_or_default(),
        (Shared::Engine(e), Q::Cos(p)) => {
            let r = e.url_cosmetic_resources(&w.pages[*p]);
            let srt = |h: &std::collections::HashSet<String>| {
                let mut v: Vec<String> = h.iter().cloned().collect();
                v.sort();
                v
            };
            format!("{:?} {:?} {:?} {:?} {}", srt(&r.hide_selectors), srt(&r.procedural_actions), srt(&r.exceptions), canon_script(&r.injected_script), r.generichide)
        }
        (Shared::Blocker(b, res), Q::Net(i)) => reqs[*i].as_ref().map(|r| NetAns::of(&b.check(r, res)).show()).unwrap_or_default(),
        (Shared::Blocker(b, _), Q::Csp(i)) => reqs[*i].as_ref().map(|r| format!("{:?}", canon_csp(b.get_csp_directives(r)))).unwrap_or_default(),
        (Shared::Blocker(b, _), Q::SetPolicy(iv, un)) => {
            b.set_regex_discard_policy(RegexManagerDiscardPolicy { cleanup_interval: Duration::from_nanos(*iv), discard_unused_time: Duration::from_nanos(*un) });
            String::new()
        }
        (Shared::Blocker(b, _), Q::Discard(k)) => {
            let d = b.get_regex_debug_info();
            let mut ids: Vec<u64> = d.regex_data.iter().map(|e| e.id).collect();
            ids.sort();
            if !ids.is_empty() {
                b.discard_regex(ids[*k % ids.len()]);
            }
            String::new()
        }
        (Shared::Blocker(b, _), Q::DebugInfo) => {
            let _ = b.get_regex_debug_info();
            String::new()
        }
        _ => String::new(),
    }
}

fn is_observation(q: &Q) -> bool {
    matches!(q, Q::Net(_) | Q::Csp(_) | Q::Cos(_))
}

/// The body of one shuttle execution.
fn scenario_body(sc: Arc<Scenario>) {
    vh::reset();
    vh::clock_set_auto_advance_ns(sc.clock_step);
    seams::run_begin(sc.world.knobs.alloc_seed, seams::Policy::from_u8(sc.world.knobs.alloc_policy));
    let reqs: Arc<Vec<Option<Request>>> = Arc::new(sc.world.probes.iter().map(|p| Request::new(&p.url, &p.source, &p.rtype).ok()).collect());
    // the sequential run: a twin engine that goes through the same phases while only one simulated
    // thread exists; the shared engine's rules live in the simulated allocator region
    let mut twin = build_shared(&sc);
    let mut shared = seams::track(|| build_shared(&sc));
    if sc.rwlock {
        scenario_rwlock(&sc, twin, shared, &reqs);
        let _ = seams::run_end();
        return;
    }
    // optional second engine with its own threads (first phase only)
    let second: Option<(Arc<Shared>, Arc<BTreeMap<String, String>>)> = if sc.second_threads.is_empty() {
        None
    } else {
        let rules2 = second_rules(&sc);
        let twin2 = build_shared_rules(&sc, &rules2);
        let mut exp2: BTreeMap<String, String> = BTreeMap::new();
        for t in &sc.second_threads {
            for q in t {
                exp2.entry(format!("{:?}", q)).or_insert_with(|| answer(&twin2, q, &sc.world, &reqs));
            }
        }
        drop(twin2);
        Some((Arc::new(seams::track(|| build_shared_rules(&sc, &rules2))), Arc::new(exp2)))
    };
    for (pi, phase) in sc.phases.iter().enumerate() {
        let mut expected: BTreeMap<String, String> = BTreeMap::new();
        for t in &phase.threads {
            for q in t {
                if is_observation(q) {
                    expected.entry(format!("{:?}", q)).or_insert_with(|| answer(&twin, q, &sc.world, &reqs));
                }
            }
        }
        let expected = Arc::new(expected);
        let arc = Arc::new(shared);
        let mut hs = vec![];
        for (ti, qs) in phase.threads.iter().enumerate() {
            let shared = arc.clone();
            let expected = expected.clone();
            let sc2 = sc.clone();
            let reqs = reqs.clone();
            let qs = qs.clone();
            hs.push(shuttle::thread::spawn(move || {
                for (qi, q) in qs.iter().enumerate() {
                    let got = answer(&shared, q, &sc2.world, &reqs);
                    if is_observation(q) {
                        let want = &expected[&format!("{:?}", q)];
                        assert!(&got == want, "C19-ANSWER phase {} thread {} query {} {:?}: concurrent answer [{}] != sequential answer [{}]", pi, ti, qi, q, got, want);
                    }
                }
            }));
        }
        if pi == 0 {
            if let Some((eng2, exp2)) = &second {
                for (ti, qs) in sc.second_threads.iter().enumerate() {
                    let eng2 = eng2.clone();
                    let exp2 = exp2.clone();
                    let sc2 = sc.clone();
                    let reqs = reqs.clone();
                    let qs = qs.clone();
                    hs.push(shuttle::thread::spawn(move || {
                        // twice: the second time compiled regexes have been discarded and are resolved again
                        for round in 0..2 {
                            for (qi, q) in qs.iter().enumerate() {
                                let got = answer(&eng2, q, &sc2.world, &reqs);
                                let want = &exp2[&format!("{:?}", q)];
                                assert!(&got == want, "C19-ANSWER second engine thread {} round {} query {} {:?}: concurrent answer [{}] != sequential answer [{}]", ti, round, qi, q, got, want);
                            }
                        }
                    }));
                }
            }
        }
        for h in hs {
            h.join().expect("C19-JOIN a query thread panicked");
        }
        assert!(vh::section_overlaps() == 0, "C19-OVERLAP two threads were inside the same regex manager at the same time ({} overlaps)", vh::section_overlaps());
        shared = match Arc::try_unwrap(arc) {
            Ok(s) => s,
            Err(_) => panic!("C19-HARNESS engine still shared after join"),
        };
        // the engine is still usable afterwards (no poison)
        for q in phase.threads.iter().flatten().take(3) {
            let _ = answer(&shared, q, &sc.world, &reqs);
        }
        mutate_sc(&mut twin, &phase.then, &sc);
        mutate_sc(&mut shared, &phase.then, &sc);
    }
    drop(shared);
    drop(twin);
    let _ = seams::run_end();
}

struct Guarded {
    shared: Shared,
    epoch: usize,
}

/// Long-lived workers query under read locks while a mutator thread applies the phases' mutations
/// under the write lock. Every answer is compared with the sequential twin *at the same epoch*.
fn scenario_rwlock(sc: &Arc<Scenario>, mut twin: Shared, shared: Shared, reqs: &Arc<Vec<Option<Request>>>) {
    let n_workers = sc.phases.iter().map(|p| p.threads.len()).max().unwrap_or(0);
    let mut worker_qs: Vec<Vec<Q>> = vec![vec![]; n_workers];
    for p in &sc.phases {
        for (i, t) in p.threads.iter().enumerate() {
            worker_qs[i].extend(t.iter().filter(|q| is_observation(q)).cloned());
        }
    }
    let muts: Vec<Mutation> = sc.phases.iter().map(|p| p.then.clone()).filter(|m| *m != Mutation::None).collect();
    let lock = Arc::new(shuttle::sync::RwLock::new(Guarded { shared, epoch: 0 }));
    let observed: Arc<shuttle::sync::Mutex<Vec<(usize, String, String)>>> = Arc::new(shuttle::sync::Mutex::new(vec![]));
    let mut hs = vec![];
    for qs in worker_qs.iter().cloned() {
        let lock = lock.clone();
        let observed = observed.clone();
        let sc2 = sc.clone();
        let reqs = reqs.clone();
        hs.push(shuttle::thread::spawn(move || {
            // every worker goes through its list twice, so that it queries again after mutations
            for _round in 0..2 {
                for q in qs.iter() {
                    let g = lock.read().expect("C19-POISON read lock poisoned");
                    let got = answer(&g.shared, q, &sc2.world, &reqs);
                    let ep = g.epoch;
                    drop(g);
                    observed.lock().unwrap().push((ep, format!("{:?}", q), got));
                }
            }
        }));
    }
    {
        let lock = lock.clone();
        let muts2 = muts.clone();
        let sc3 = sc.clone();
        hs.push(shuttle::thread::spawn(move || {
            for (k, m) in muts2.iter().enumerate() {
                let mut g = lock.write().expect("C19-POISON write lock poisoned");
                mutate_sc(&mut g.shared, m, &sc3);
                g.epoch = k + 1;
            }
        }));
    }
    for h in hs {
        h.join().expect("C19-JOIN a thread panicked");
    }
    assert!(vh::section_overlaps() == 0, "C19-OVERLAP two threads were inside the same regex manager at the same time ({} overlaps)", vh::section_overlaps());
    // sequential reference: the twin answers every observed query at every epoch
    let obs = observed.lock().unwrap().clone();
    let mut expected: Vec<BTreeMap<String, String>> = vec![];
    let all_qs: Vec<Q> = worker_qs.iter().flatten().cloned().collect();
    for k in 0..=muts.len() {
        let mut m: BTreeMap<String, String> = BTreeMap::new();
        for q in &all_qs {
            m.entry(format!("{:?}", q)).or_insert_with(|| answer(&twin, q, &sc.world, reqs));
        }
        expected.push(m);
        if k < muts.len() {
            mutate_sc(&mut twin, &muts[k], sc);
        }
    }
    for (ep, q, got) in obs {
        let want = &expected[ep][&q];
        assert!(&got == want, "C19-ANSWER (rwlock) query {} at epoch {}: concurrent answer [{}] != sequential answer [{}]", q, ep, got, want);
    }
}

pub struct ExecOut {
    pub violation: Option<Violation>,
    pub schedule: Option<String>,
    pub yields: u64,
    pub clock_reads: u64,
    pub probes: [u64; 8],
    pub steps_digest: u64,
}

fn sched_dir() -> std::path::PathBuf {
    let d = std::path::PathBuf::from(format!("/verif/target/scratch/shuttle-{}", std::process::id()));
    let _ = std::fs::create_dir_all(&d);
    d
}

fn take_schedule_file() -> Option<String> {
    let d = sched_dir();
    let mut files: Vec<_> = std::fs::read_dir(&d).ok()?.filter_map(|e| e.ok()).map(|e| e.path()).collect();
    files.sort();
    let mut out = None;
    for f in files {
        if let Ok(s) = std::fs::read_to_string(&f) {
            out = Some(s);
        }
        let _ = std::fs::remove_file(&f);
    }
    out
}

fn config() -> shuttle::Config {
    let mut cfg = shuttle::Config::new();
    cfg.stack_size = 4 << 20;
    cfg.failure_persistence = shuttle::FailurePersistence::File(Some(sched_dir()));
    cfg.max_steps = shuttle::MaxSteps::FailAfter(200_000);
    cfg.silence_warnings = true;
    cfg
}

fn classify(msg: &str) -> (&'static str, String) {
    if msg.contains("C19-ANSWER") {
        ("sequential-equivalence", "answer".into())
    } else if msg.contains("C19-OVERLAP") {
        ("mutual-exclusion", "overlap".into())
    } else if msg.to_lowercase().contains("deadlock") {
        ("no-deadlock", "deadlock".into())
    } else if msg.contains("PoisonError") || msg.contains("poison") {
        ("no-poison", "poison".into())
    } else if msg.contains("exceeded max_steps") || msg.contains("max_steps") {
        ("progress", "livelock".into())
    } else {
        ("no-panic", "panic".into())
    }
}

/// Run one scenario: either search (one execution under the scenario's seeded scheduler) or replay
/// of the embedded schedule. Runs on a fresh OS thread so hash keys are the scenario's.
pub fn execute(sc: &Scenario, replay: bool) -> ExecOut {
    let sc = Arc::new(sc.clone());
    seams::hashkey_set(sc.world.knobs.hash_key);
    let sc2 = sc.clone();
    let h = std::thread::Builder::new()
        .stack_size(64 << 20)
        .spawn(move || {
            set_quiet(true);
            let _ = take_schedule_file();
            let body = {
                let sc3 = sc2.clone();
                move || scenario_body(sc3.clone())
            };
            let r = catch_unwind(AssertUnwindSafe(|| {
                if replay {
                    let s = sc2.schedule.clone().unwrap_or_default();
                    shuttle::replay(body, &s);
                } else {
                    match sc2.sched.as_str() {
                        "pct1" | "pct2" | "pct3" => {
                            let depth = sc2.sched[3..].parse::<usize>().unwrap_or(2);
                            let s = shuttle::scheduler::PctScheduler::new_from_seed(sc2.sched_seed, depth, 1);
                            shuttle::Runner::new(s, config()).run(body);
                        }
                        _ => {
                            let s = shuttle::scheduler::RandomScheduler::new_from_seed(sc2.sched_seed, 1);
                            shuttle::Runner::new(s, config()).run(body);
                        }
                    }
                }
            }));
            let probes = vh::probes();
            let mut d = Digest::new();
            d.u64(vh::yields());
            d.u64(vh::clock_reads());
            for p in probes {
                d.u64(p);
            }
            match r {
                Ok(()) => ExecOut { violation: None, schedule: None, yields: vh::yields(), clock_reads: vh::clock_reads(), probes, steps_digest: d.0 },
                Err(e) => {
                    let msg = if let Some(s) = e.downcast_ref::<String>() {
                        s.clone()
                    } else if let Some(s) = e.downcast_ref::<&str>() {
                        s.to_string()
                    } else {
                        last_panic()
                    };
                    let lp = last_panic();
                    let full = if msg.contains("C19-") || lp.is_empty() { msg.clone() } else { format!("{} | {}", msg, lp) };
                    let (oracle, what) = classify(&full);
                    let schedule = take_schedule_file();
                    ExecOut {
                        violation: Some(Violation { property: "C19".into(), oracle: oracle.into(), step: 0, op: "concurrent queries".into(), what, got: full.chars().take(600).collect(), want: "every concurrent answer equals the sequential one; no deadlock, poison or overlap".into() }),
                        schedule,
                        yields: vh::yields(),
                        clock_reads: vh::clock_reads(),
                        probes,
                        steps_digest: d.0,
                    }
                }
            }
        })
        .expect("spawn");
    h.join().unwrap_or(ExecOut {
        violation: Some(Violation { property: "C19".into(), oracle: "no-panic".into(), step: 0, op: "run".into(), what: "panic".into(), got: "run thread died".into(), want: "".into() }),
        schedule: None,
        yields: 0,
        clock_reads: 0,
        probes: [0; 8],
        steps_digest: 0,
    })
}

fn warm_up() {
    // touch every lazily initialised static of the crate outside shuttle (a Lazy initialised by two
    // shuttle threads at once would block on a std primitive shuttle cannot see)
    warm_up_statics(16);
    for i in 0..8u64 {
        let mut sc = generate(mix3(0x57a7_1c19, 1, i));
        for ph in sc.phases.iter_mut() {
            ph.threads.truncate(1);
        }
        let _ = execute(&sc, false);
    }
}

fn arg_val(args: &[String], name: &str) -> Option<String> {
    args.iter().position(|a| a == name).and_then(|i| args.get(i + 1).cloned())
}

fn search_fails(sc: &Scenario, class: &(String, String, String), budget: u64) -> Option<(Scenario, Violation)> {
    for k in 0..budget {
        let mut c = sc.clone();
        c.sched_seed = mix3(sc.sched_seed, 0x5eed, k);
        let o = execute(&c, false);
        if let Some(v) = o.violation {
            if &v.class() == class {
                c.schedule = o.schedule;
                c.violation = Some(v.clone());
                return Some((c, v));
            }
        }
    }
    None
}

fn minimize(sc0: &Scenario, v0: &Violation) -> Scenario {
    let class = v0.class();
    let mut best = sc0.clone();
    let budget = 150;
    // fewer rules
    let mut chunk = (best.world.rules.len() / 2).max(1);
    loop {
        let mut i = 0;
        while i < best.world.rules.len() {
            let mut c = best.clone();
            let end = (i + chunk).min(c.world.rules.len());
            c.world.rules.drain(i..end);
            if let Some((c2, _)) = search_fails(&c, &class, budget) {
                best = c2;
            } else {
                i += chunk;
            }
        }
        if chunk == 1 {
            break;
        }
        chunk /= 2;
    }
    // fewer phases, threads and queries
    let mut pi = best.phases.len();
    while pi > 0 && best.phases.len() > 1 {
        pi -= 1;
        let mut c = best.clone();
        c.phases.remove(pi);
        if let Some((c2, _)) = search_fails(&c, &class, budget) {
            best = c2;
        }
    }
    for pi in 0..best.phases.len() {
        let mut ti = best.phases[pi].threads.len();
        while ti > 0 && best.phases[pi].threads.len() > 1 {
            ti -= 1;
            let mut c = best.clone();
            c.phases[pi].threads.remove(ti);
            if let Some((c2, _)) = search_fails(&c, &class, budget) {
                best = c2;
            }
        }
        for ti in 0..best.phases[pi].threads.len() {
            let mut qi = best.phases[pi].threads[ti].len();
            while qi > 0 {
                qi -= 1;
                if best.phases[pi].threads[ti].len() <= 1 {
                    break;
                }
                let mut c = best.clone();
                c.phases[pi].threads[ti].remove(qi);
                if let Some((c2, _)) = search_fails(&c, &class, budget) {
                    best = c2;
                }
            }
        }
    }
    best.note = "minimised: rules, threads and queries dropped; each candidate re-searched under up to 150 seeded schedules; the embedded schedule is the failing one of the final candidate".into();
    best
}

fn main() {
    let args: Vec<String> = std::env::args().collect();
    if args.len() < 2 {
        eprintln!("usage: adsim-c19 worker|replay|minimize ...");
        std::process::exit(2);
    }
    seams::init(std::mem::size_of::<adblock::filters::network::NetworkFilter>() + 16);
    install_quiet_panic_hook();
    match args[1].as_str() {
        "worker" => {
            let g = |n: &str, d: u64| arg_val(&args, n).map(|s| s.parse().unwrap()).unwrap_or(d);
            let (seed, start, stride, count, deadline) = (g("--seed", 1), g("--start", 0), g("--stride", 1), g("--count", 10), g("--deadline", 3600));
            let reverse = args.iter().any(|a| a == "--reverse");
            warm_up();
            let out = std::io::stdout();
            let t0 = Instant::now();
            let mut stats: BTreeMap<String, u64> = BTreeMap::new();
            let mut done = 0u64;
            let mut sched_digests: BTreeSet<u64> = BTreeSet::new();
            for k0 in 0..count {
                if t0.elapsed().as_secs() >= deadline {
                    break;
                }
                let k = if reverse { count - 1 - k0 } else { k0 };
                let idx = start + k * stride;
                let sc = generate(mix3(seed, tag_of("C19"), idx));
                let o = execute(&sc, false);
                done += 1;
                let mut add = |k: &str, v: u64| *stats.entry(k.to_string()).or_insert(0) += v;
                add("yield_points_reached", o.yields);
                add("clock_reads", o.clock_reads);
                add("threads", sc.phases.iter().map(|p| p.threads.len() as u64).sum());
                add("queries", sc.phases.iter().flat_map(|p| p.threads.iter()).map(|t| t.len() as u64).sum());
                add("phases", sc.phases.len() as u64);
                add("mutations_between_phases", sc.phases.iter().filter(|p| p.then != Mutation::None).count() as u64);
                add(&format!("scheduler_{}", sc.sched), 1);
                add(if sc.blocker { "shared_blocker_runs" } else { "shared_engine_runs" }, 1);
                add("rwlock_scenarios", sc.rwlock as u64);
                add("scenarios_with_second_engine", (!sc.second_threads.is_empty() && !sc.rwlock) as u64);
                for (i, n) in vh::PROBE_NAMES.iter().enumerate() {
                    add(&format!("probe_{}", n), o.probes[i]);
                }
                sched_digests.insert(o.steps_digest);
                let mut shape = Digest::new();
                shape.u64(o.steps_digest);
                shape.u64(sc.seed);
                let nontrivial = sc.phases[0].threads.len() >= 2 && o.probes[7] >= 1;
                let mut l = out.lock();
                let _ = writeln!(l, "R {} {:x} {:x} {:x} {}", idx, o.steps_digest, 0, shape.0, nontrivial as u8);
                if k < 2 && start < 2 {
                    let _ = writeln!(l, "E {}", json!({"seed": sc.seed, "shared": if sc.blocker {"Arc<Blocker>"} else {"Arc<Engine>"}, "scheduler": sc.sched, "phases": sc.phases.iter().map(|p| json!({"threads": p.threads.iter().map(|t| t.iter().map(|q| format!("{:?}", q)).collect::<Vec<_>>()).collect::<Vec<_>>(), "then": format!("{:?}", p.then)})).collect::<Vec<_>>(), "policy_ns": sc.policy, "clock_step_ns": sc.clock_step, "n_rules": sc.world.rules.len(), "first_rules": sc.world.rules.iter().take(5).map(|r| r.text()).collect::<Vec<_>>()}));
                }
                if let Some(v) = o.violation {
                    let mut sc = sc;
                    sc.violation = Some(v);
                    sc.schedule = o.schedule;
                    let _ = writeln!(l, "V19 {}", serde_json::to_string(&sc).unwrap());
                }
            }
            let mut l = out.lock();
            let _ = writeln!(l, "S {}", json!({"runs": done, "stats": stats, "states": sched_digests.into_iter().collect::<Vec<u64>>()}));
        }
        "replay" => {
            let text = std::fs::read_to_string(&args[2]).expect("read");
            let sc: Scenario = serde_json::from_str(&text).expect("parse");
            warm_up();
            let o = execute(&sc, sc.schedule.is_some());
            match o.violation {
                Some(v) => {
                    println!("REPRODUCED property=C19 oracle={}\n  what={}\n  got ={}", v.oracle, v.what, v.got);
                    std::process::exit(1);
                }
                None => println!("no violation"),
            }
        }
        "minimize" => {
            let text = std::fs::read_to_string(&args[2]).expect("read");
            let sc: Scenario = serde_json::from_str(&text).expect("parse");
            warm_up();
            let o = execute(&sc, false);
            match o.violation {
                None => std::process::exit(3),
                Some(v) => {
                    let mut sc = sc;
                    sc.schedule = o.schedule;
                    sc.violation = Some(v.clone());
                    let m = minimize(&sc, &v);
                    std::fs::write(&args[3], serde_json::to_string_pretty(&m).unwrap()).unwrap();
                }
            }
        }
        _ => {
            eprintln!("unknown command");
            std::process::exit(2);
        }
    }
}
