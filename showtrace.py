#!/usr/bin/env python3
import json,sys
for f in sys.argv[1:]:
    t=json.load(open(f))
    print(f, 'blocker=',t['blocker'], t['world']['knobs'])
    def rt(r):
        s=r['spec']
        if 'Net' in s:
            n=s['Net']; opts=list(n['opts'])+(['tag='+n['tag']] if n['tag'] else [])
            return '%s%s%s'%('@@' if n['exc'] else '',n['pat'],('$'+','.join(opts)) if opts else '')
        return s['Cos']
    for r in t['world']['rules']: print('  rule[%d]: %s'%(r['perm'],rt(r)))
    for i,r in enumerate(t['world']['extra']): print('  extra#%d: %s'%(i,rt(r)))
    print('  resources', [(r['name'],r['perm'],r['deps']) for r in t['world']['resources']])
    print('  ops',t['ops'])
    v=t.get('violation')
    if v: print('  ',v['op'],'|',v['what'][:200]); print('   got ',v['got'][:400]); print('   want',v['want'][:400])
