#!/bin/bash
# Runs every kept seeded change against the quick tier of the check of the property it breaks
# (apply to /repo, run, restore) and writes /verif/seeded/REGRESSION.tsv: id, property, exit code, first line.
cd /verif
out=/verif/seeded/REGRESSION.tsv
echo -e "seeded_change\tproperty\tcheck_exit\tresult" > $out
for d in seeded/C*; do
  p=$(basename $d | cut -d- -f1)
  # (a change kept under one property may be the business of another property's check: meta.json says which)
  q=$(python3 -c "import json,sys; c=json.load(open('$d/meta.json')).get('run_against_checks',{}).get('caught_by',[]); print(c[0] if c and c[0].startswith('C') else '')" 2>/dev/null)
  [ -n "$q" ] && p=$q
  ./tools/trymutant.sh /verif/$d/patch.diff $p > /tmp/regress.one 2>&1; rc=$?
  line=$(grep -E "^VIOLATION|^OK|harness|refusing|does not apply" /tmp/regress.one | head -1 | cut -c1-160)
  echo -e "$(basename $d)\t$p\t$rc\t$line" >> $out
done
for f in seeded/own/*.diff; do
  n=$(basename $f .diff); p=$(echo $n | cut -d- -f1 | tr a-z A-Z)
  ./tools/trymutant.sh /verif/$f $p > /tmp/regress.one 2>&1; rc=$?
  line=$(grep -E "^VIOLATION|^OK|harness|refusing|does not apply" /tmp/regress.one | head -1 | cut -c1-160)
  echo -e "own/$n\t$p\t$rc\t$line" >> $out
done
echo DONE >> $out
