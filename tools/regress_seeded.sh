#!/bin/bash
# Runs every kept seeded change against the quick tier of the check that is expected to catch it
# (apply to /repo, run, restore) and writes /verif/seeded/REGRESSION.tsv: id, property, exit code, first line.
# To save time a change is first run against the first quarter of the quick tier's runs (the runs are
# indexed, so that quarter is a subset of the quick tier: a catch there is a catch in the quick tier);
# only if that stays quiet is the full quick tier run. Touches /repo while running.
cd /verif
out=/verif/seeded/REGRESSION.tsv
echo -e "seeded_change\tproperty\tcheck_exit\tstage\tresult" > $out
one() { # <label> <patch> <prop>
  local label=$1 patch=$2 p=$3 part=""
  case $p in C05|C06|C07|C08) part="--runs 4000";; C09) part="--runs 3000";; C19) part="--runs 15000";; esac
  local stage=full rc line
  if [ -n "$part" ]; then
    ./tools/trymutant.sh $patch $p $part > /tmp/regress.one 2>&1; rc=$?; stage=quarter
  else
    rc=0
  fi
  if [ $rc -ne 1 ]; then
    ./tools/trymutant.sh $patch $p > /tmp/regress.one 2>&1; rc=$?; stage=full
  fi
  line=$(grep -E "^VIOLATION|^OK|harness|refusing|does not apply" /tmp/regress.one | head -1 | cut -c1-160)
  echo -e "$label\t$p\t$rc\t$stage\t$line" >> $out
}
for d in $(ls -d seeded/C* | sort -t- -k2,2r); do
  p=$(basename $d | cut -d- -f1)
  # (a change kept under one property may be the business of another property's check: meta.json says which)
  q=$(python3 -c "import json,sys; c=json.load(open('$d/meta.json')).get('run_against_checks',{}).get('caught_by',[]); print(c[0] if c and c[0].startswith('C') else '')" 2>/dev/null)
  [ -n "$q" ] && p=$q
  one $(basename $d) /verif/$d/patch.diff $p
done
for f in seeded/own/*.diff; do
  n=$(basename $f .diff); p=$(echo $n | cut -d- -f1 | tr a-z A-Z)
  one own/$n /verif/$f $p
done
echo DONE >> $out
