#!/bin/bash
# usage: trymutant.sh <patch.diff> <prop> [extra ./check args]
# applies a seeded change to /repo, runs one check, and always restores /repo afterwards
set -u
if git -C /repo status --porcelain --untracked-files=no | grep -q .; then echo "refusing: /repo has uncommitted changes" >&2; exit 2; fi
git -C /repo apply "$1" || { echo "patch does not apply" >&2; exit 2; }
/verif/check run "$2" "${@:3}" > /tmp/trymutant.out 2>&1; rc=$?
git -C /repo checkout -- .
grep -E "^VIOLATION|^OK|^KNOWN|harness" /tmp/trymutant.out | cut -c1-260 | head -8
grep -A1 "^VIOLATION" /tmp/trymutant.out | grep "^  " | cut -c1-300 | head -4
echo "rc=$rc"
exit $rc
