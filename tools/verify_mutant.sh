#!/bin/bash
# usage: verify_mutant.sh <worktree> <mutant dir containing patch.diff, demo.rs, meta.json> [c19]
# Confirms, in the scratch worktree: demo passes without the patch; with the patch the crate
# compiles in both configurations, the existing suite passes (except the 6 network tests) and the demo fails.
set -u
WT="$1"; M="$2"; MODE="${3:-}"
export CARGO_NET_OFFLINE=true
FEATS=""
[ "$MODE" = c19 ] && FEATS="--no-default-features --features embedded-domain-resolver,full-regex-handling"
grep -q "regex-debug-info\|discard_regex\|get_regex_debug_info" "$M/demo.rs" && [ "$MODE" != c19 ] && FEATS="--features regex-debug-info"
[ "$MODE" = c19 ] && grep -q "discard_regex\|get_regex_debug_info" "$M/demo.rs" && FEATS="--no-default-features --features embedded-domain-resolver,full-regex-handling,regex-debug-info"
cd "$WT" || exit 2
git checkout -q -- src tests 2>/dev/null; rm -f tests/demo_mutant.rs
cp "$M/demo.rs" tests/demo_mutant.rs
cargo test --offline $FEATS --test demo_mutant > /tmp/vm_demo_without.log 2>&1; r1=$?
git apply "$M/patch.diff" || { echo "PATCH DOES NOT APPLY"; rm -f tests/demo_mutant.rs; exit 2; }
cargo check --offline --no-default-features --features embedded-domain-resolver,full-regex-handling > /tmp/vm_check_nodef.log 2>&1; r_nodef=$?
cargo test --offline $FEATS --test demo_mutant > /tmp/vm_demo_with.log 2>&1; r2=$?
rm -f tests/demo_mutant.rs
cargo test --offline --no-fail-fast > /tmp/vm_suite.log 2>&1
failed=$(grep -E "^test .* FAILED" /tmp/vm_suite.log | grep -v -E "check_live_from_filterlists|check_live_specific_urls|stable_serialization|check_matching_equivalent|check_matching_hostnames" | wc -l)
passed=$(grep -E "^test result" /tmp/vm_suite.log | sed -E 's/.* ([0-9]+) passed.*/\1/' | paste -sd+ | bc)
compiled=$(grep -c "^error" /tmp/vm_suite.log)
git checkout -q -- src
echo "{\"demo_without_rc\":$r1,\"demo_with_rc\":$r2,\"nodefault_check_rc\":$r_nodef,\"suite_passed\":$passed,\"suite_unexpected_failures\":$failed,\"suite_compile_errors\":$compiled}"
