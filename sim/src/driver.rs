//! Process fan-out, aggregation, known findings, replay files, evidence, contract lines.
//!
//! One simulated run is in flight per worker *process* (the `regex` crate shards its cache pools
//! by a global thread counter, so concurrent runs in one process would not replay); parallelism
//! comes from processes. Every worker first executes a fixed warm-up so that the lazily
//! initialised statics of the crate are in the same state whatever ran before.

use std::collections::{BTreeMap, BTreeSet};
use std::io::{BufRead, BufReader, Write};
use std::process::{Command, Stdio};
use std::time::Instant;

use serde::{Deserialize, Serialize};
use serde_json::{json, Value};

use crate::exec::{RunStats, Violation};
use crate::hist::{self, Trace};

pub const WARMUP_RUNS: u64 = 18;
pub const WARMUP_THREADS: usize = 16;
pub const VERIF_DIR: &str = "/verif";

#[derive(Clone, Debug, Serialize, Deserialize)]
pub struct Finding {
    pub status: String, // "known" | "fixed"
    pub property: String,
    pub id: String,
    #[serde(default)]
    pub commit: String,
    pub witness: String,
    pub what: String,
    #[serde(default)]
    pub line: String,
}

#[derive(Clone, Debug, Serialize, Deserialize, Default)]
pub struct Findings {
    pub findings: Vec<Finding>,
}

/// Removes replay files left by earlier runs of this property's check.
pub fn clear_replays(prop: &str) {
    let dir = format!("{}/replays", VERIF_DIR);
    if let Ok(rd) = std::fs::read_dir(&dir) {
        for e in rd.flatten() {
            if e.file_name().to_string_lossy().starts_with(&format!("{}-", prop)) {
                let _ = std::fs::remove_file(e.path());
            }
        }
    }
}

pub fn load_findings() -> Findings {
    let p = format!("{}/known_findings.json", VERIF_DIR);
    match std::fs::read_to_string(&p) {
        Ok(s) => serde_json::from_str(&s).unwrap_or_else(|e| {
            eprintln!("harness error: cannot parse {}: {}", p, e);
            std::process::exit(2)
        }),
        Err(_) => Findings::default(),
    }
}

pub fn self_exe() -> std::path::PathBuf {
    std::env::current_exe().expect("current_exe")
}

/// Aggregate of what the workers report.
#[derive(Default)]
pub struct Agg {
    pub runs: u64,
    pub nontrivial_shapes: BTreeSet<u64>,
    pub states: BTreeSet<u64>,
    pub stats: BTreeMap<String, u64>,
    pub violations: Vec<Trace>,
    pub digests: BTreeMap<u64, (u64, u64)>,
    pub seed_index: BTreeMap<u64, u64>,
    pub samples: Vec<Value>,
    pub worker_deaths: Vec<String>,
}

pub fn add_stats(agg: &mut BTreeMap<String, u64>, s: &RunStats) {
    let mut add = |k: &str, v: u64| {
        let e = agg.entry(k.to_string()).or_insert(0);
        *e = e.saturating_add(v);
    };
    add("ops", s.ops);
    add("mutating_ops", s.mutating_ops);
    add("comparisons", s.comparisons);
    add("nondefault_answers", s.nondefault_answers);
    add("sim_time_ms", s.sim_time_ns / 1_000_000);
    add("tag_switches", s.tag_switches);
    add("reloads", s.reloads);
    add("reload_foreign_bytes", s.reload_foreign);
    add("reload_with_caller_tags", s.reload_with_tags);
    add("restarts", s.restarts);
    add("faulty_loads_rejected_mid_history", s.faulty_loads_rejected);
    add("burst_calls", s.burst_calls);
    add("explicit_discards_requested", s.discards_requested);
    add("add_filter_ok", s.add_filter_ok);
    add("add_filter_err", s.add_filter_err);
    add("optimize_calls", s.optimize_calls);
    add("fused_rule_matched", s.fused_match);
    add("ops_on_helper_thread", s.ops_on_helper_thread);
    add("alloc_fresh_blocks", s.alloc_fresh);
    add("alloc_recycled_blocks", s.alloc_recycled);
    for (i, n) in adblock::verif_hooks::PROBE_NAMES.iter().enumerate() {
        add(&format!("probe_{}", n), s.probes[i]);
    }
}

fn sample_of(t: &Trace) -> Value {
    json!({
        "seed": t.seed,
        "driver": if t.blocker { "Blocker" } else { "Engine" },
        "knobs": t.world.knobs,
        "n_rules": t.world.rules.len(),
        "first_rules": t.world.rules.iter().take(6).map(|r| r.text()).collect::<Vec<_>>(),
        "ops": t.ops.iter().take(24).map(|o| format!("{:?}", o)).collect::<Vec<_>>(),
        "first_probe": t.world.probes.first(),
    })
}

/// Worker side: run `count` runs starting at `start` with `stride`, print results as lines.
pub fn warm_up() {
    crate::exec::warm_up_statics(WARMUP_THREADS);
    // then real runs of every history generator, so that code paths the kitchen-sink world does
    // not reach have also been executed on threads of every pool-shard residue
    for i in 0..WARMUP_RUNS {
        for c in [crate::exec::Check::C06, crate::exec::Check::C08, crate::exec::Check::C07, crate::exec::Check::C05] {
            let _ = hist::run_seed(c, 0x57a7_1c00, i);
        }
    }
}

pub fn worker_hist(prop: &str, seed: u64, start: u64, stride: u64, count: u64, deadline_s: u64, breadcrumb: Option<String>, reverse: bool) {
    let check = hist::parse_check(prop).expect("property");
    let out = std::io::stdout();
    // fixed warm-up (also on replay)
    warm_up();
    let t0 = Instant::now();
    let mut stats: BTreeMap<String, u64> = BTreeMap::new();
    let mut states: BTreeSet<u64> = BTreeSet::new();
    let mut done = 0u64;
    for k0 in 0..count {
        if t0.elapsed().as_secs() >= deadline_s {
            break;
        }
        let k = if reverse { count - 1 - k0 } else { k0 };
        let idx = start + k * stride;
        if let Some(b) = &breadcrumb {
            let _ = std::fs::write(b, format!("{} {}", prop, idx));
        }
        let (t, o) = hist::run_seed(check, seed, idx);
        done += 1;
        add_stats(&mut stats, &o.outcome.stats);
        for s in &o.outcome.stats.states {
            states.insert(*s);
        }
        let nontrivial = o.outcome.stats.mutating_ops >= 1 && o.outcome.stats.nondefault_answers >= 1;
        let mut l = out.lock();
        let _ = writeln!(l, "R {} {:x} {:x} {:x} {}", idx, o.outcome.digest, o.outcome.stats.alloc_digest, hist::shape_digest(&t), nontrivial as u8);
        if k < 2 && start < 2 {
            let _ = writeln!(l, "E {}", sample_of(&t));
        }
        if let Some(v) = o.outcome.violation {
            let mut t = t;
            t.violation = Some(v);
            let _ = writeln!(l, "I {} {}", t.seed, idx);
            let _ = writeln!(l, "V {}", serde_json::to_string(&t).unwrap());
        }
    }
    let mut l = out.lock();
    let _ = writeln!(l, "S {}", json!({"runs": done, "stats": stats, "states": states.into_iter().collect::<Vec<u64>>()}));
}

pub fn parse_worker_line(line: &str, agg: &mut Agg) {
    if let Some(rest) = line.strip_prefix("R ") {
        let f: Vec<&str> = rest.split(' ').collect();
        if f.len() == 5 {
            let idx: u64 = f[0].parse().unwrap_or(0);
            let d = u64::from_str_radix(f[1], 16).unwrap_or(0);
            let a = u64::from_str_radix(f[2], 16).unwrap_or(0);
            let shape = u64::from_str_radix(f[3], 16).unwrap_or(0);
            agg.digests.insert(idx, (d, a));
            if f[4] == "1" {
                agg.nontrivial_shapes.insert(shape);
            }
        }
    } else if let Some(rest) = line.strip_prefix("I ") {
        let f: Vec<&str> = rest.split(' ').collect();
        if f.len() == 2 {
            if let (Ok(sd), Ok(ix)) = (f[0].parse::<u64>(), f[1].parse::<u64>()) {
                agg.seed_index.insert(sd, ix);
            }
        }
    } else if let Some(rest) = line.strip_prefix("V ") {
        if let Ok(t) = serde_json::from_str::<Trace>(rest) {
            agg.violations.push(t);
        }
    } else if let Some(rest) = line.strip_prefix("E ") {
        if let Ok(v) = serde_json::from_str::<Value>(rest) {
            if agg.samples.len() < 3 {
                agg.samples.push(v);
            }
        }
    } else if let Some(rest) = line.strip_prefix("S ") {
        if let Ok(v) = serde_json::from_str::<Value>(rest) {
            agg.runs += v["runs"].as_u64().unwrap_or(0);
            if let Some(m) = v["stats"].as_object() {
                for (k, x) in m {
                    let e = agg.stats.entry(k.clone()).or_insert(0);
                    *e = e.saturating_add(x.as_u64().unwrap_or(0));
                }
            }
            if let Some(a) = v["states"].as_array() {
                for s in a {
                    if let Some(x) = s.as_u64() {
                        agg.states.insert(x);
                    }
                }
            }
        }
    }
}

/// Driver side: fan a run range out over `workers` processes.
pub fn fan_out(sub: &str, prop: &str, seed: u64, total: u64, workers: u64, deadline_s: u64, reverse: bool) -> Agg {
    let exe = self_exe();
    let mut children = vec![];
    let scratch = format!("{}/target/scratch", VERIF_DIR);
    let _ = std::fs::create_dir_all(&scratch);
    for w in 0..workers {
        let count = (total + workers - 1 - w) / workers;
        if count == 0 {
            continue;
        }
        let crumb = format!("{}/crumb-{}-{}-{}", scratch, prop, std::process::id(), w);
        let mut cmd = Command::new(&exe);
        cmd.arg(sub)
            .arg(prop)
            .arg("--seed")
            .arg(seed.to_string())
            .arg("--start")
            .arg(w.to_string())
            .arg("--stride")
            .arg(workers.to_string())
            .arg("--count")
            .arg(count.to_string())
            .arg("--deadline")
            .arg(deadline_s.to_string())
            .arg("--breadcrumb")
            .arg(&crumb);
        if reverse {
            cmd.arg("--reverse");
        }
        let child = cmd.stdout(Stdio::piped()).stderr(Stdio::inherit()).spawn().expect("spawn worker");
        children.push((w, crumb, child));
    }
    let mut agg = Agg::default();
    let mut handles = vec![];
    for (w, crumb, mut child) in children {
        let so = child.stdout.take().unwrap();
        handles.push(std::thread::spawn(move || {
            let mut lines = vec![];
            for l in BufReader::new(so).lines().map_while(Result::ok) {
                lines.push(l);
            }
            let st = child.wait().expect("wait worker");
            (w, crumb, lines, st)
        }));
    }
    for h in handles {
        let (w, crumb, lines, st) = h.join().expect("join reader");
        for l in &lines {
            parse_worker_line(l, &mut agg);
        }
        if !st.success() {
            let c = std::fs::read_to_string(&crumb).unwrap_or_default();
            agg.worker_deaths.push(format!("worker {} died with {:?} while running case [{}]", w, st, c));
        }
        let _ = std::fs::remove_file(&crumb);
    }
    agg
}

pub struct CheckResult {
    pub exit: i32,
}

fn run_child(args: &[&str]) -> (i32, String) {
    let o = Command::new(self_exe()).args(args).output().expect("spawn child");
    (o.status.code().unwrap_or(-1), String::from_utf8_lossy(&o.stdout).to_string())
}

/// Replays the witnesses of listed findings. Returns (known-finding lines, violations as (what, replay path)).
pub fn check_witnesses(prop: &str, findings: &Findings, replay_sub: &str) -> (Vec<String>, Vec<(String, String)>, Vec<Value>) {
    let mut lines = vec![];
    let mut viol = vec![];
    let mut report = vec![];
    // all witnesses replay concurrently, each in its own fresh process
    let selected: Vec<&Finding> = findings.findings.iter().filter(|f| f.property == prop).collect();
    let handles: Vec<_> = selected
        .iter()
        .map(|f| {
            let path = format!("{}/{}", VERIF_DIR, f.witness);
            let sub = replay_sub.to_string();
            std::thread::spawn(move || run_child(&[&sub, &path]))
        })
        .collect();
    let results: Vec<(i32, String)> = handles.into_iter().map(|h| h.join().expect("witness thread")).collect();
    for (f, (code, out)) in selected.into_iter().zip(results.into_iter()) {
        let path = format!("{}/{}", VERIF_DIR, f.witness);
        // a replay process killed by a signal (abort on a refused allocation, stack overflow) reproduces a
        // violation of "without panicking or aborting"
        let reproduced = (code == 1 && out.contains("REPRODUCED")) || code == -1;
        report.push(json!({"id": f.id, "status": f.status, "witness": f.witness, "reproduced": reproduced}));
        match (f.status.as_str(), reproduced) {
            ("known", true) => lines.push(format!("KNOWN-FINDING: property={} {} [{}] witness={}", prop, f.what, f.id, f.witness)),
            ("known", false) => {
                if code != 0 {
                    eprintln!("harness error: witness {} exited {} without reproducing: {}", f.witness, code, out);
                    std::process::exit(2);
                }
                println!("note: listed finding {} no longer reproduces on this tree (witness {})", f.id, f.witness);
            }
            ("fixed", true) => viol.push((format!("fixed defect {} is back: {}", f.id, f.what), path.clone())),
            ("fixed", false) => {
                if code != 0 {
                    eprintln!("harness error: witness {} exited {}: {}", f.witness, code, out);
                    std::process::exit(2);
                }
            }
            _ => {}
        }
    }
    (lines, viol, report)
}

pub struct Tier {
    pub runs: u64,
    pub deadline_s: u64,
}

pub fn hist_tier(prop: &str, tier: &str) -> Tier {
    let quick = tier != "thorough";
    let _ = prop;
    if quick {
        Tier { runs: 16_000, deadline_s: 150 }
    } else {
        Tier { runs: 600_000, deadline_s: 1500 }
    }
}

pub fn write_evidence(prop: &str, v: &Value) {
    let dir = format!("{}/evidence", VERIF_DIR);
    let _ = std::fs::create_dir_all(&dir);
    let p = format!("{}/{}.json", dir, prop);
    std::fs::write(&p, serde_json::to_string_pretty(v).unwrap()).expect("write evidence");
}

pub const COMPONENTS_REAL: &[&str] = &[
    "adblock crate from /repo working tree (engine, blocker, network_filter_list, optimizer, regex_manager, cosmetic_filter_cache, lists, filters, data_format, resources, request, url_parser)",
    "regex, rmp-serde, serde, serde_json, seahash, addr/psl, base64, idna, url (unmodified dependencies)",
];
pub const COMPONENTS_STUB: &[&str] = &[
    "clock: adblock::verif_hooks::Instant (simulated, advanced only by the simulator)",
    "libc getrandom (hash seeds): interposed, bytes from the run's hashkey stream",
    "global allocator for the ArcInner<NetworkFilter> size class: seeded recycle policy; accounting for all other sizes",
    "disk: in-memory byte slots between serialize_raw and deserialize",
];

/// The history checks C05..C08.
pub fn run_hist_check(prop: &str, tier: &str, seed: u64, workers: u64, runs_override: Option<u64>) -> i32 {
    let t0 = Instant::now();
    let findings = load_findings();
    let tr = hist_tier(prop, tier);
    let total = runs_override.unwrap_or(tr.runs);
    println!("VERIF_SEED={} property={} tier={} runs={} workers={}", seed, prop, tier, total, workers);

    clear_replays(prop);
    let (kf_lines, mut violations, witness_report) = check_witnesses(prop, &findings, "replay");
    for l in &kf_lines {
        println!("{}", l);
    }

    let agg = fan_out("worker", prop, seed, total, workers, tr.deadline_s, false);
    let mut harness_error = false;
    for d in &agg.worker_deaths {
        // a dead worker in a history check: abort/segfault while running a case -> violation of "no panic/abort"
        eprintln!("{}", d);
        harness_error = true;
    }

    // process-level isolation (C06 only): the same runs executed after *other* predecessors in another
    // process must give the same answers; a difference means some process-wide state (a static memo, an
    // interner, a thread-local) makes results depend on what other engines did before
    let mut isolation_compared = 0u64;
    if prop == "C06" && !harness_error {
        let k = total.min(if tier == "thorough" { 2048 } else { 192 });
        let second = fan_out("worker", prop, seed, k, 3, tr.deadline_s, true);
        for (idx, (d, _)) in &second.digests {
            if let Some((d0, _)) = agg.digests.get(idx) {
                isolation_compared += 1;
                if d != d0 && !violations.iter().any(|v| v.0.starts_with("isolation")) {
                    // order in which the second pass ran this run's predecessors
                    let w = idx % 3;
                    let mut order: Vec<u64> = (0..k).filter(|i| i % 3 == w && i > idx).collect();
                    order.reverse();
                    order.push(*idx);
                    let p = format!("{}/replays/C06-isolation-{}.json", VERIF_DIR, idx);
                    let _ = std::fs::create_dir_all(format!("{}/replays", VERIF_DIR));
                    std::fs::write(&p, serde_json::to_string_pretty(&json!({"property": "C06", "kind": "isolation", "seed": seed, "order": order, "note": "run the listed run indices in this order in one process; the answers of the last one differ from the answers it gives when it runs alone"})).unwrap()).unwrap();
                    let (rc, rout) = run_child(&["replay", &p]);
                    if rc == 1 && rout.contains("REPRODUCED") {
                        violations.push((format!("isolation: answers of history run {} depend on which other engines ran before it in the same process", idx), p));
                    } else {
                        eprintln!("harness error: isolation difference of run {} did not replay: {}", idx, rout);
                        harness_error = true;
                    }
                }
            }
        }
    }

    // minimise up to 3 distinct violation classes, verify each replay in a fresh process
    let mut seen = BTreeSet::new();
    let replays_dir = format!("{}/replays", VERIF_DIR);
    let _ = std::fs::create_dir_all(&replays_dir);
    for t in &agg.violations {
        let v = t.violation.as_ref().unwrap();
        let class = v.class();
        if seen.contains(&class) || seen.len() >= 3 {
            continue;
        }
        seen.insert(class.clone());
        let raw = format!("{}/{}-{}-raw.json", replays_dir, prop, t.seed);
        std::fs::write(&raw, serde_json::to_string(t).unwrap()).unwrap();
        let minp = format!("{}/{}-{}.json", replays_dir, prop, t.seed);
        let (code, out) = run_child(&["minimize", &raw, &minp]);
        let path = if code == 0 && std::path::Path::new(&minp).exists() { minp.clone() } else { raw.clone() };
        let (rc, rout) = run_child(&["replay", &path]);
        if rc == 1 && rout.contains("REPRODUCED") {
            if path == minp {
                let _ = std::fs::remove_file(&raw);
            }
            violations.push((format!("{} / {} / {}", class.0, class.1, v.what), path));
        } else {
            // not reproducible on its own: does it depend on what ran before it in the same process (hidden
            // state shared between engines)? Re-run the worker's sequence up to this run in a fresh process.
            let idx = agg.seed_index.get(&t.seed).copied();
            let mut done = false;
            if let Some(idx) = idx {
                let w = idx % workers;
                let order: Vec<u64> = (0..=idx).filter(|i| i % workers == w).collect();
                let p = format!("{}/{}-sequence-{}.json", replays_dir, prop, idx);
                std::fs::write(&p, serde_json::to_string_pretty(&json!({"property": prop, "kind": "sequence", "seed": seed, "order": order, "note": "run the listed run indices in this order in one process: the last one violates the property, although the same run alone does not (state shared between separate engines in one process)"})).unwrap()).unwrap();
                let (rc2, rout2) = run_child(&["replay", &p]);
                if rc2 == 1 && rout2.contains("REPRODUCED") {
                    violations.push((format!("{} / {} / {} (only after the preceding runs of the same process: hidden shared state)", class.0, class.1, v.what), p));
                    done = true;
                }
            }
            if !done {
                eprintln!("harness error: violation of run seed {} did not replay (minimise exit {}, replay exit {}): {} {}", t.seed, code, rc, out, rout);
                harness_error = true;
            }
        }
    }

    let wall = t0.elapsed().as_secs_f64();
    let runs = agg.runs;
    let g = |k: &str| agg.stats.get(k).copied().unwrap_or(0);
    let faults = json!({
        "clock_advance_ops_sim_seconds": g("sim_time_ms") as f64 / 1e3,
        "cleanup_fired": g("probe_cleanup_fired"),
        "regex_discarded_by_cleanup": g("probe_cleanup_discarded"),
        "regex_discarded_explicitly": g("probe_explicit_discard"),
        "regex_recompiled_after_discard": g("probe_recompiled"),
        "allocator_recycled_rule_blocks": g("alloc_recycled_blocks"),
        "allocator_fresh_rule_blocks": g("alloc_fresh_blocks"),
        "tag_switches": g("tag_switches"),
        "reload_from_bytes": g("reloads"),
        "reload_of_another_worlds_bytes": g("reload_foreign_bytes"),
        "reload_with_nonempty_caller_tags": g("reload_with_caller_tags"),
        "crash_restart": g("restarts"),
        "explicit_optimize": g("optimize_calls"),
        "add_filter_ok": g("add_filter_ok"),
        "add_filter_rejected": g("add_filter_err"),
        "hash_seed_per_run": runs,
        "state_change_on_another_thread": g("ops_on_helper_thread"),
    });
    let ev = json!({
        "property_id": prop,
        "tier": if tier == "thorough" { "thorough" } else { "quick" },
        "seed": seed,
        "level": "exploration",
        "wall_s": wall,
        "violations": violations.len(),
        "coverage": {
            "evaluations": runs,
            "distinct_nontrivial": agg.nontrivial_shapes.len(),
            "rule": "one evaluation = one simulated run: a generated world (rule pool, resources, probes, knobs) and an operation history of 6-40 operations executed against the real engine on a fresh thread with simulated clock, seeded allocator recycling and seeded hash keys; after every state-changing operation the full probe set is compared with the oracle engine(s). A run counts as non-trivial if it has >= 1 state-changing operation and >= 1 probe with a non-default answer; distinct = distinct digest of (operation-kind sequence, world shape, knobs).",
            "samples": agg.samples,
            "exhaustive": false,
            "runs_per_hour": if wall > 0.0 { (runs as f64 / wall * 3600.0) as u64 } else { 0 },
            "seeds_per_hour": if wall > 0.0 { (runs as f64 / wall * 3600.0) as u64 } else { 0 },
            "simulated_time_s": g("sim_time_ms") as f64 / 1e3,
            "operations": g("ops"),
            "state_changing_operations": g("mutating_ops"),
            "oracle_comparisons": g("comparisons"),
            "nondefault_answers": g("nondefault_answers"),
            "distinct_abstract_states": agg.states.len(),
            "abstract_state_measure": "digest of (enabled tag set, rule-state id, effective optimise flag, number of cache entries, number of compiled cache entries) after each operation",
            "faults_injected": faults,
            "fused_rule_matched_in_debug_worlds": g("fused_rule_matched"),
            "reach_probes": agg.stats.iter().filter(|(k, _)| k.starts_with("probe_")).map(|(k, v)| (k.clone(), json!(v))).collect::<serde_json::Map<String, Value>>(),
            "witnesses": witness_report,
            "process_isolation_runs_compared": isolation_compared,
            "components_real": COMPONENTS_REAL,
            "components_stub": COMPONENTS_STUB,
            "workers": workers,
            "warmup_runs_per_worker": WARMUP_RUNS,
        },
        "assumptions": [
            "no 64-bit id collisions between distinct rule lines of one world",
            "requests without a source URL are not generated (index completeness for domain= rules is C01, not claimed; one fixed witness is listed as a known finding of C06)",
            "the oracle engines are the same crate: a defect that affects a fresh engine and a long-lived engine identically is invisible here",
        ],
    });
    write_evidence(prop, &ev);

    if harness_error {
        eprintln!("harness error (see above)");
        return 2;
    }
    if !violations.is_empty() {
        for (what, path) in &violations {
            println!("VIOLATION property={} replay={}", prop, path);
            println!("  {}", what);
        }
        return 1;
    }
    println!("OK property={} runs={} distinct_nontrivial={} wall_s={:.1}", prop, runs, agg.nontrivial_shapes.len(), wall);
    0
}

/// Determinism self-check: the same seeds in different processes, orders and worker counts must
/// give identical event-log and allocator digests.
pub fn selfcheck(seed: u64, runs: u64) -> i32 {
    let mut bad = 0;
    for prop in ["C06", "C07", "C05", "C08"] {
        let a = fan_out("worker", prop, seed, runs, 16, 3600, false);
        let b = fan_out("worker", prop, seed, runs, 5, 3600, true);
        let c = fan_out("worker", prop, seed, runs.min(200), 1, 3600, false);
        let mut diff = 0;
        for (idx, d) in &a.digests {
            if b.digests.get(idx) != Some(d) {
                diff += 1;
                if diff <= 5 {
                    eprintln!("selfcheck {}: run {} differs: {:?} vs {:?}", prop, idx, d, b.digests.get(idx));
                }
            }
        }
        for (idx, d) in &c.digests {
            if a.digests.get(idx) != Some(d) {
                diff += 1;
                if diff <= 5 {
                    eprintln!("selfcheck {}: run {} differs (1 worker): {:?} vs {:?}", prop, idx, d, a.digests.get(idx));
                }
            }
        }
        println!("selfcheck {}: {} runs x (16 workers, 5 workers reversed), {} with 1 worker: {} differences", prop, a.digests.len(), c.digests.len(), diff);
        bad += diff;
    }
    if bad > 0 {
        2
    } else {
        0
    }
}

// =============================================================================================
// C09
// =============================================================================================

pub fn worker_c09(seed: u64, start: u64, stride: u64, count: u64, deadline_s: u64, child_pct: u64, passthrough: bool) {
    use crate::c09;
    warm_up();
    let out = std::io::stdout();
    let t0 = Instant::now();
    let mut builds = 0u64;
    let mut reloads = 0u64;
    let mut childs = 0u64;
    let mut done = 0u64;
    let mut orders: BTreeSet<u64> = BTreeSet::new();
    let mut multi_order_worlds = 0u64;
    let mut bytes_total = 0u64;
    for k in 0..count {
        if t0.elapsed().as_secs() >= deadline_s {
            break;
        }
        let idx = start + k * stride;
        let with_child = child_pct > 0 && (crate::rng::mix3(seed, 77, idx) % 100) < child_pct;
        let (t, o) = c09::run_seed(seed, idx, with_child, passthrough && with_child);
        done += 1;
        builds += o.builds;
        reloads += o.reloads;
        childs += o.child_builds;
        bytes_total += o.bytes_len as u64;
        if o.orders.len() >= 2 {
            multi_order_worlds += 1;
        }
        for x in &o.orders {
            orders.insert(*x);
        }
        let mut l = out.lock();
        // nontrivial: >= 20 rules serialized and >= 2 distinct induced iteration orders among the builds
        let nontrivial = t.world.rules.len() >= 20 && o.orders.len() >= 2;
        let _ = writeln!(l, "R {} {:x} {:x} {:x} {}", idx, o.digest, 0, o.digest, nontrivial as u8);
        if k < 2 && start < 2 {
            let _ = writeln!(l, "E {}", json!({"seed": t.seed, "n_rules": t.world.rules.len(), "first_rules": t.world.rules.iter().take(8).map(|r| r.text()).collect::<Vec<_>>(), "knobs": t.world.knobs, "serialized_len": o.bytes_len, "distinct_iteration_orders_induced": o.orders.len()}));
        }
        if let Some(v) = o.violation {
            let mut t = t;
            t.violation = Some(v);
            let _ = writeln!(l, "V {}", serde_json::to_string(&t).unwrap());
        }
    }
    let mut stats: BTreeMap<String, u64> = BTreeMap::new();
    stats.insert("builds".into(), builds);
    stats.insert("reloads".into(), reloads);
    stats.insert("child_process_builds".into(), childs);
    stats.insert("worlds_with_2plus_iteration_orders".into(), multi_order_worlds);
    stats.insert("serialized_bytes_total".into(), bytes_total);
    let mut l = out.lock();
    let _ = writeln!(l, "S {}", json!({"runs": done, "stats": stats, "states": orders.into_iter().collect::<Vec<u64>>()}));
}

pub fn run_c09_check(tier: &str, seed: u64, workers: u64, runs_override: Option<u64>) -> i32 {
    use crate::c09;
    let t0 = Instant::now();
    let prop = "C09";
    let findings = load_findings();
    let quick = tier != "thorough";
    let total = runs_override.unwrap_or(if quick { 12_000 } else { 400_000 });
    println!("VERIF_SEED={} property={} tier={} worlds={} workers={}", seed, prop, tier, total, workers);
    clear_replays(prop);
    let (kf_lines, mut violations, witness_report) = check_witnesses(prop, &findings, "replay-c09");
    for l in &kf_lines {
        println!("{}", l);
    }
    let exe = self_exe();
    let mut children = vec![];
    for w in 0..workers {
        let count = (total + workers - 1 - w) / workers;
        if count == 0 {
            continue;
        }
        let mut cmd = Command::new(&exe);
        cmd.arg("worker-c09")
            .args(["--seed", &seed.to_string(), "--start", &w.to_string(), "--stride", &workers.to_string(), "--count", &count.to_string()])
            .args(["--deadline", if quick { "150" } else { "1500" }, "--child-pct", "5"]);
        if !quick {
            cmd.arg("--passthrough");
        }
        children.push(cmd.stdout(Stdio::piped()).stderr(Stdio::inherit()).spawn().expect("spawn"));
    }
    let mut agg = Agg::default();
    let mut harness_error = false;
    // (every worker's output is drained by its own reader thread: a worker must never block on a full pipe)
    let mut handles = vec![];
    for mut c in children {
        let so = c.stdout.take().unwrap();
        handles.push(std::thread::spawn(move || {
            let lines: Vec<String> = BufReader::new(so).lines().map_while(Result::ok).collect();
            let ok = c.wait().map(|s| s.success()).unwrap_or(false);
            (lines, ok)
        }));
    }
    for h in handles {
        let (lines, ok) = h.join().expect("join reader");
        for l in &lines {
            parse_worker_line(l, &mut agg);
        }
        if !ok {
            eprintln!("harness error: a C09 worker died");
            harness_error = true;
        }
    }
    let replays_dir = format!("{}/replays", VERIF_DIR);
    let _ = std::fs::create_dir_all(&replays_dir);
    let mut seen = BTreeSet::new();
    for t in &agg.violations {
        let v = t.violation.as_ref().unwrap();
        let class = v.class();
        if seen.contains(&class) || seen.len() >= 3 {
            continue;
        }
        seen.insert(class.clone());
        let raw = format!("{}/{}-{}-raw.json", replays_dir, prop, t.seed);
        std::fs::write(&raw, serde_json::to_string(t).unwrap()).unwrap();
        let minp = format!("{}/{}-{}.json", replays_dir, prop, t.seed);
        let (code, out) = run_child(&["minimize-c09", &raw, &minp]);
        let path = if code == 0 && std::path::Path::new(&minp).exists() { minp.clone() } else { raw.clone() };
        let (rc, rout) = run_child(&["replay-c09", &path]);
        if rc == 1 && rout.contains("REPRODUCED") {
            if path == minp {
                let _ = std::fs::remove_file(&raw);
            }
            violations.push((format!("{} / {} / {} ({})", class.0, class.1, v.what, v.got), path));
        } else {
            eprintln!("harness error: C09 violation of world seed {} did not replay (minimise exit {}, replay exit {}): {} {}", t.seed, code, rc, out, rout);
            harness_error = true;
        }
    }
    let wall = t0.elapsed().as_secs_f64();
    let g = |k: &str| agg.stats.get(k).copied().unwrap_or(0);
    let ev = json!({
        "property_id": prop,
        "tier": if quick { "quick" } else { "thorough" },
        "seed": seed,
        "level": "exploration",
        "wall_s": wall,
        "violations": violations.len(),
        "coverage": {
            "evaluations": agg.runs,
            "distinct_nontrivial": agg.nontrivial_shapes.len(),
            "rule": format!("one evaluation = one generated rule list (30-200 lines, network + cosmetic, all rule shapes) built {} times on fresh threads under different simulated hash keys, allocator policies and order-preserving construction chunkings (and in a child process for ~5% of the lists; in the thorough tier that child uses the kernel's real getrandom), all buffers compared byte for byte; then 3 reload variants (other hash key; other optimise knob on the receiving engine; tag round trip) and a tags-enabled build pair + reload must reproduce the buffer. Non-trivial: >= 20 rules and >= 2 distinct HashMap iteration orders actually induced among the builds (measured with a probe map); distinct = distinct serialized buffer.", c09::K_BUILDS),
            "samples": agg.samples,
            "exhaustive": false,
            "runs_per_hour": if wall > 0.0 { (agg.runs as f64 / wall * 3600.0) as u64 } else { 0 },
            "engine_builds": g("builds"),
            "reloads": g("reloads"),
            "faults_injected": {
                "hash_key_changes": g("builds") + g("reloads"),
                "child_process_builds": g("child_process_builds"),
                "allocator_policy_changes": g("builds"),
                "construction_chunking_changes": g("builds"),
            },
            "worlds_with_2plus_iteration_orders": g("worlds_with_2plus_iteration_orders"),
            "distinct_iteration_orders_of_probe_map": agg.states.len(),
            "serialized_bytes_total": g("serialized_bytes_total"),
            "witnesses": witness_report,
            "components_real": COMPONENTS_REAL,
            "components_stub": ["libc getrandom (hash seeds): interposed; thorough tier additionally builds in child processes with the real kernel getrandom", "global allocator for the rule size class", "disk: in-memory buffers"],
        },
        "assumptions": ["stability across crate versions or platforms is not claimed (the property does not ask for it)", "std's RandomState is the only source of iteration-order nondeterminism in the crate (seahash-keyed maps are fixed-seed)"],
    });
    write_evidence(prop, &ev);
    if harness_error {
        return 2;
    }
    if !violations.is_empty() {
        for (what, path) in &violations {
            println!("VIOLATION property={} replay={}", prop, path);
            println!("  {}", what);
        }
        return 1;
    }
    println!("OK property={} worlds={} distinct_nontrivial={} wall_s={:.1}", prop, agg.runs, agg.nontrivial_shapes.len(), wall);
    0
}

// =============================================================================================
// C10
// =============================================================================================

pub struct Crumb {
    ptr: *mut u64,
}
unsafe impl Send for Crumb {}
impl Crumb {
    pub fn open(path: &str) -> Crumb {
        use std::os::unix::io::AsRawFd;
        let f = std::fs::OpenOptions::new().read(true).write(true).create(true).truncate(true).open(path).expect("crumb file");
        f.set_len(64).unwrap();
        let p = unsafe { libc::mmap(std::ptr::null_mut(), 64, libc::PROT_READ | libc::PROT_WRITE, libc::MAP_SHARED, f.as_raw_fd(), 0) };
        assert!(p != libc::MAP_FAILED);
        Crumb { ptr: p as *mut u64 }
    }
    pub fn set(&self, a: u64, b: u64, c: u64, n: u64) {
        unsafe {
            std::ptr::write_volatile(self.ptr, a);
            std::ptr::write_volatile(self.ptr.add(1), b);
            std::ptr::write_volatile(self.ptr.add(2), c);
            std::ptr::write_volatile(self.ptr.add(3), n);
            std::ptr::write_volatile(self.ptr.add(4), 1);
        }
    }
    pub fn read(path: &str) -> Option<(u64, u64, u64, u64)> {
        let b = std::fs::read(path).ok()?;
        if b.len() < 40 {
            return None;
        }
        let g = |i: usize| u64::from_le_bytes(b[8 * i..8 * i + 8].try_into().unwrap());
        if g(4) != 1 {
            return None;
        }
        Some((g(0), g(1), g(2), g(3)))
    }
}

#[allow(clippy::too_many_arguments)]
pub fn worker_c10(seed: u64, buffers: u64, n_sampled: u64, start: u64, stride: u64, skip_until: u64, deadline_s: u64, crumb_path: Option<String>, keys_path: Option<String>) {
    use crate::c10::*;
    warm_up();
    let out = std::io::stdout();
    let t0 = Instant::now();
    let crumb = crumb_path.as_ref().map(|p| Crumb::open(p));
    let mut st = C10Stats::default();
    let mut n: u64 = 0;
    let mut nviol = 0u64;
    let mut keys: Vec<u64> = vec![];
    let mut samples = 0;
    crate::seams::hashkey_set(seed ^ 0xc10);
    let h = std::thread::Builder::new().stack_size(32 << 20).spawn(move || {
        crate::exec::set_quiet(true);
        'outer: for bi in 0..buffers {
            let bs = buffer_set(seed, bi, n_sampled);
            let mut target = Target::build(&bs.target_world, &bs.target_tags);
            let mut pre: Vec<String> = vec![];
            let alt_tags: Vec<String> = bs.target_world.tags.iter().filter(|t| !bs.target_tags.contains(t)).cloned().collect();
            let want_alt = reference_answers(&bs, &alt_tags);
            // the pristine buffers themselves must load (fault-free configuration of the same path)
            for (ki, kind) in KINDS.iter().enumerate() {
                let cnt = bs.space.count(kind);
                for idx in 0..cnt {
                    let mine = n % stride == start && n >= skip_until;
                    n += 1;
                    if !mine {
                        continue;
                    }
                    if t0.elapsed().as_secs() >= deadline_s {
                        break 'outer;
                    }
                    let bytes = bs.space.case(kind, idx);
                    if let Some(c) = &crumb {
                        c.set(bi, ki as u64, idx, n - 1);
                    }
                    if bytes != bs.space.a {
                        keys.push(distinct_key(kind, &bytes));
                    }
                    let mut v = run_case(&mut target, kind, &bytes, *kind == "lost_write", &mut st);
                    if st.last_err {
                        if pre.len() < 64 {
                            pre.push(hex(&bytes));
                        }
                    } else {
                        pre.clear();
                    }
                    // every 50th case: offer the same bytes twice more (same outcome expected), then a
                    // fault-free load of the pristine image under another tag set (must behave like the
                    // engine the image was taken from)
                    let mut followup = "";
                    if v.is_none() && st.cases % 50 == 7 {
                        followup = "repeat";
                        v = repeat_load(&mut target, &bytes, &mut st);
                        if v.is_none() {
                            followup = "probe";
                            v = probe_load(&mut target, &bs, &alt_tags, want_alt, &mut st);
                            if v.is_none() {
                                pre.clear();
                            }
                        }
                    }
                    if samples < 3 && start == 0 && idx % 97 == 5 {
                        samples += 1;
                        let mut l = out.lock();
                        let _ = writeln!(l, "E {}", json!({"buffer": bi, "buffer_len": bs.space.a.len(), "fault": kind, "index": idx, "corrupt_len": bytes.len(), "first_bytes_hex": hex(&bytes[..bytes.len().min(24)]), "target_rules": bs.target_world.rules.len(), "target_tags": bs.target_tags}));
                    }
                    if let Some(v) = v {
                        nviol += 1;
                        if nviol <= 6 {
                            let mut rp = replay_of(&bs, kind, idx, &bytes, Some(v));
                            if !followup.is_empty() {
                                rp.followup = followup.to_string();
                                rp.image_hex = hex(&bs.space.a);
                                rp.image_world = Some(bs.world_a.clone());
                                rp.alt_tags = alt_tags.clone();
                                rp.pre_hex = pre[..pre.len().saturating_sub(1)].to_vec();
                            }
                            let mut l = out.lock();
                            let _ = writeln!(l, "W {}", serde_json::to_string(&rp).unwrap());
                        }
                    }
                }
            }
        }
        (st, keys, nviol)
    }).expect("spawn");
    let (st, keys, nviol) = h.join().expect("c10 worker thread");
    let out = std::io::stdout();
    if let Some(kp) = keys_path {
        let mut b = Vec::with_capacity(keys.len() * 8);
        for k in &keys {
            b.extend_from_slice(&k.to_le_bytes());
        }
        let _ = std::fs::write(kp, b);
    }
    let mut l = out.lock();
    let _ = writeln!(l, "T {}", json!({"stats": st, "violations": nviol}));
}

pub fn run_c10_check(tier: &str, seed: u64, workers: u64, buffers_override: Option<u64>) -> i32 {
    use crate::c10::*;
    let t0 = Instant::now();
    let prop = "C10";
    let findings = load_findings();
    let quick = tier != "thorough";
    let buffers = buffers_override.unwrap_or(if quick { 16 } else { 400 });
    let n_sampled: u64 = if quick { 400 } else { 5000 };
    println!("VERIF_SEED={} property={} tier={} buffers={} workers={}", seed, prop, tier, buffers, workers);
    clear_replays(prop);
    let (kf_lines, mut violations, witness_report) = check_witnesses(prop, &findings, "replay-c10");
    for l in &kf_lines {
        println!("{}", l);
    }
    let scratch = format!("{}/target/scratch", VERIF_DIR);
    let _ = std::fs::create_dir_all(&scratch);
    let exe = self_exe();
    let mut total = C10Stats::default();
    let mut samples: Vec<Value> = vec![];
    let mut replays: Vec<C10Replay> = vec![];
    let mut harness_error = false;
    let mut all_keys: std::collections::HashSet<u64> = std::collections::HashSet::new();
    let mut deaths = 0u64;
    let mut abandoned_partitions = 0u64;
    // each worker may be respawned after a death; (worker, skip_until)
    let mut pending: Vec<(u64, u64, u32)> = (0..workers).map(|w| (w, 0u64, 0u32)).collect();
    while !pending.is_empty() {
        let mut running = vec![];
        for (w, skip, gen) in pending.drain(..) {
            let crumb = format!("{}/c10-crumb-{}-{}", scratch, std::process::id(), w);
            let keys = format!("{}/c10-keys-{}-{}-{}", scratch, std::process::id(), w, gen);
            let _ = std::fs::remove_file(&crumb);
            let child = Command::new(&exe)
                .arg("worker-c10")
                .args(["--seed", &seed.to_string(), "--buffers", &buffers.to_string(), "--sampled", &n_sampled.to_string()])
                .args(["--start", &w.to_string(), "--stride", &workers.to_string(), "--skip-until", &skip.to_string()])
                .args(["--deadline", if quick { "200" } else { "1700" }, "--breadcrumb", &crumb, "--keys", &keys])
                .stdout(Stdio::piped())
                .stderr(Stdio::null())
                .spawn()
                .expect("spawn");
            running.push((w, gen, crumb, keys, child));
        }
        let mut handles = vec![];
        for (w, gen, crumb, keys, mut child) in running {
            handles.push(std::thread::spawn(move || {
                let so = child.stdout.take().unwrap();
                let lines: Vec<String> = BufReader::new(so).lines().map_while(Result::ok).collect();
                let st = child.wait().expect("wait");
                (w, gen, crumb, keys, lines, st)
            }));
        }
        for h in handles {
            let (w, gen, crumb, keys, lines, status) = h.join().unwrap();
            let mut finished = false;
            for l in &lines {
                if let Some(rest) = l.strip_prefix("W ") {
                    if let Ok(rp) = serde_json::from_str::<C10Replay>(rest) {
                        replays.push(rp);
                    }
                } else if let Some(rest) = l.strip_prefix("E ") {
                    if samples.len() < 3 {
                        if let Ok(v) = serde_json::from_str::<Value>(rest) {
                            samples.push(v);
                        }
                    }
                } else if let Some(rest) = l.strip_prefix("T ") {
                    if let Ok(v) = serde_json::from_str::<Value>(rest) {
                        finished = true;
                        if let Ok(s) = serde_json::from_value::<C10Stats>(v["stats"].clone()) {
                            total.cases += s.cases;
                            total.load_err += s.load_err;
                            total.load_ok += s.load_ok;
                            total.load_ok_on_damaged += s.load_ok_on_damaged;
                            total.max_request = total.max_request.max(s.max_request);
                            total.max_peak = total.max_peak.max(s.max_peak);
                            total.rebuilds += s.rebuilds;
                            for (k, x) in s.per_kind {
                                *total.per_kind.entry(k).or_insert(0) += x;
                            }
                        }
                    }
                }
            }
            if let Ok(b) = std::fs::read(&keys) {
                for c in b.chunks_exact(8) {
                    all_keys.insert(u64::from_le_bytes(c.try_into().unwrap()));
                }
            }
            let _ = std::fs::remove_file(&keys);
            if !finished || !status.success() {
                // the worker process died: the case in the breadcrumb killed it
                deaths += 1;
                match Crumb::read(&crumb) {
                    Some((bi, ki, idx, n)) if (ki as usize) < KINDS.len() => {
                        let bs = buffer_set(seed, bi, n_sampled);
                        let kind = KINDS[ki as usize];
                        let bytes = bs.space.case(kind, idx);
                        let v = Violation {
                            property: "C10".into(),
                            oracle: "no-abort".into(),
                            step: 0,
                            op: "deserialize".into(),
                            what: format!("abort worker process died ({:?}) [{} len={}]", status, kind, bytes.len()),
                            got: "process death (abort, stack overflow or refused allocation above 1 GiB)".into(),
                            want: "Ok or Err".into(),
                        };
                        replays.push(replay_of(&bs, kind, idx, &bytes, Some(v)));
                        if gen < 4 {
                            pending.push((w, n + 1, gen + 1));
                        } else {
                            // every death is already recorded as a violation; stop exploring this partition
                            abandoned_partitions += 1;
                        }
                    }
                    _ => {
                        eprintln!("harness error: C10 worker {} died without a breadcrumb ({:?})", w, status);
                        harness_error = true;
                    }
                }
            }
            let _ = std::fs::remove_file(&crumb);
        }
    }
    // replay files: one per class (at most 4), minimised, verified in a fresh process
    let replays_dir = format!("{}/replays", VERIF_DIR);
    let _ = std::fs::create_dir_all(&replays_dir);
    let mut seen = BTreeSet::new();
    let n_raw_violations = replays.len();
    for rp in &replays {
        let v = rp.violation.as_ref().unwrap();
        let class = (v.oracle.clone(), rp.kind.clone());
        let class_o = v.oracle.clone();
        if seen.iter().any(|(o, _): &(String, String)| *o == class_o) || seen.len() >= 4 {
            continue;
        }
        seen.insert(class);
        let raw = format!("{}/C10-{}-{}-{}-raw.json", replays_dir, rp.seed, rp.kind, rp.index);
        std::fs::write(&raw, serde_json::to_string(rp).unwrap()).unwrap();
        let minp = format!("{}/C10-{}-{}-{}.json", replays_dir, rp.seed, rp.kind, rp.index);
        let (code, _out) = if v.oracle == "no-abort" { (9, String::new()) } else { run_child(&["minimize-c10", &raw, &minp]) };
        let path = if code == 0 && std::path::Path::new(&minp).exists() { minp.clone() } else { raw.clone() };
        let (mut rc, mut rout) = run_child(&["replay-c10", &path]);
        let mut reproduced = (rc == 1 && rout.contains("REPRODUCED")) || (v.oracle == "no-abort" && rc != 0 && rc != 2);
        if !reproduced && v.oracle != "no-abort" {
            // the outcome may depend on the iteration order of a map the code under test builds while
            // loading; that order is a function of the simulated hash key, which in the worker had been
            // advanced by the cases before this one. Search the key space for one that shows the same
            // class of violation from a fresh thread, and store that key in the replay file.
            for k in 1..=64u64 {
                let mut rp2 = rp.clone();
                rp2.target.knobs.hash_key = crate::rng::mix3(rp.seed, 0x4a5b, k);
                rp2.note = format!("hash key {} of 64 tried: the violation depends on a map's iteration order", k);
                std::fs::write(&raw, serde_json::to_string(&rp2).unwrap()).unwrap();
                let (rc2, rout2) = run_child(&["replay-c10", &raw]);
                if rc2 == 1 && rout2.contains(&format!("REPRODUCED property=C10 oracle={}", v.oracle)) {
                    rc = rc2;
                    rout = rout2;
                    reproduced = true;
                    break;
                }
            }
        }
        let path = if reproduced && !std::path::Path::new(&path).exists() { raw.clone() } else if reproduced && rc == 1 && path == minp && !{
            let (c, o) = run_child(&["replay-c10", &minp]);
            c == 1 && o.contains("REPRODUCED")
        } {
            raw.clone()
        } else {
            path
        };
        if reproduced {
            if path == minp {
                let _ = std::fs::remove_file(&raw);
            }
            violations.push((format!("{} / {} ({})", v.oracle, v.what, v.got), path));
        } else {
            eprintln!("harness error: C10 violation [{} {} #{}] did not replay (exit {}): {}", v.oracle, rp.kind, rp.index, rc, rout);
            harness_error = true;
        }
    }
    let wall = t0.elapsed().as_secs_f64();
    let ev = json!({
        "property_id": prop,
        "tier": if quick { "quick" } else { "thorough" },
        "seed": seed,
        "level": "fault_enumeration",
        "wall_s": wall,
        "violations": violations.len(),
        "coverage": {
            "evaluations": total.cases,
            "distinct_nontrivial": all_keys.len(),
            "rule": "one evaluation = one (buffer, fault) case loaded into a non-empty engine (own rules, enabled tags) under catch_unwind and allocation accounting. For every sampled buffer the single-fault space is enumerated completely for: torn write (every prefix), bit rot (every single-bit flip), stale tail (new prefix + old image suffix at every cut), lost write, marker substitution (20 replacement markers at every msgpack value offset found by a walker), string substitution (every stored string replaced by each of 27 degenerate/hostile strings, re-framed as valid msgpack), JSON mutation (every stored JSON text with arrays emptied, keys removed, values nulled) and value substitution (every msgpack value, with everything nested in it, replaced by nil / false / 0 / empty array / empty map / empty string); zeroed ranges, duplicated ranges, multi-byte corruption, free-form strings (every header variant, hostile length fields, deep nesting) and typed hostile images (well-typed wire structures generated from scratch whose contents violate the parser's invariants: empty alternative lists, empty strings, anchor flags without hostname, unsorted/empty domain lists, arbitrary mask bits) are sampled. Non-trivial and distinct: distinct (fault kind, corrupt byte string) pairs that differ from the pristine buffer, counted over all workers.",
            "samples": samples,
            "exhaustive": true,
            "exhaustive_scope": format!("per sampled buffer, kinds {:?} are enumerated completely; buffers and the other kinds are sampled", EXHAUSTIVE_KINDS),
            "buffers": buffers,
            "faults_injected": total.per_kind,
            "load_returned_err": total.load_err,
            "load_returned_ok": total.load_ok,
            "load_returned_ok_on_damaged_bytes": total.load_ok_on_damaged,
            "largest_single_allocation_request_bytes": total.max_request,
            "largest_peak_live_bytes_during_a_load": total.max_peak,
            "worker_process_deaths": deaths,
            "partitions_abandoned_after_repeated_deaths": abandoned_partitions,
            "raw_violations": n_raw_violations,
            "cases_per_hour": if wall > 0.0 { (total.cases as f64 / wall * 3600.0) as u64 } else { 0 },
            "witnesses": witness_report,
            "components_real": COMPONENTS_REAL,
            "components_stub": ["disk: SimDisk fault generator between serialize_raw and deserialize", "global allocator: accounting of every request during the load, refusal above 1 GiB", "process boundary: workers are child processes so that aborts are observed"],
        },
        "assumptions": ["allocation bounds: largest request <= max(8 MiB, 256 x len), peak live <= 16 MiB + 512 x len", "C10 does not require corruption to be detected: Ok on damaged bytes is accepted if the engine is total afterwards"],
    });
    write_evidence(prop, &ev);
    if harness_error {
        return 2;
    }
    if !violations.is_empty() {
        for (what, path) in &violations {
            println!("VIOLATION property={} replay={}", prop, path);
            println!("  {}", what);
        }
        return 1;
    }
    println!("OK property={} cases={} distinct_nontrivial={} wall_s={:.1}", prop, total.cases, all_keys.len(), wall);
    0
}

// =============================================================================================
// C19
// =============================================================================================

fn spawn_workers(exe: &std::path::Path, sub: &[&str], seed: u64, total: u64, workers: u64, deadline_s: u64) -> (Agg, Vec<String>, bool) {
    let mut children = vec![];
    for w in 0..workers {
        let count = (total + workers - 1 - w) / workers;
        if count == 0 {
            continue;
        }
        let mut cmd = Command::new(exe);
        cmd.args(sub).args(["--seed", &seed.to_string(), "--start", &w.to_string(), "--stride", &workers.to_string(), "--count", &count.to_string(), "--deadline", &deadline_s.to_string()]);
        children.push(cmd.stdout(Stdio::piped()).stderr(Stdio::null()).spawn().expect("spawn"));
    }
    let mut agg = Agg::default();
    let mut extra = vec![];
    let mut ok = true;
    let mut handles = vec![];
    for mut c in children {
        handles.push(std::thread::spawn(move || {
            let so = c.stdout.take().unwrap();
            let lines: Vec<String> = BufReader::new(so).lines().map_while(Result::ok).collect();
            let st = c.wait().map(|s| s.success()).unwrap_or(false);
            (lines, st)
        }));
    }
    for h in handles {
        let (lines, st) = h.join().unwrap();
        for l in lines {
            if l.starts_with("V19 ") {
                extra.push(l[4..].to_string());
            } else {
                parse_worker_line(&l, &mut agg);
            }
        }
        ok &= st;
    }
    (agg, extra, ok)
}

pub fn run_c19_check(tier: &str, seed: u64, workers: u64, runs_override: Option<u64>) -> i32 {
    let t0 = Instant::now();
    let prop = "C19";
    let quick = tier != "thorough";
    let findings = load_findings();
    let exe_b = std::path::PathBuf::from(format!("{}/target/b/release/adsim", VERIF_DIR));
    let exe_c = std::path::PathBuf::from(format!("{}/target/c/release/adsim-c19", VERIF_DIR));
    let total = runs_override.unwrap_or(if quick { 60_000 } else { 3_000_000 });
    let diff_runs: u64 = if quick { 1600 } else { 40_000 };
    println!("VERIF_SEED={} property={} tier={} schedules={} differential_runs={} workers={}", seed, prop, tier, total, diff_runs, workers);
    let mut violations: Vec<(String, String)> = vec![];
    let mut harness_error = false;
    clear_replays(prop);
    let replays_dir = format!("{}/replays", VERIF_DIR);
    let _ = std::fs::create_dir_all(&replays_dir);

    // clause "can be shared across threads": the thread-safe configuration must compile (Engine: Send + Sync
    // is a static assertion inside the crate). ./check leaves the compiler output here if it did not.
    let b_fail = format!("{}/target/build-b.failed", VERIF_DIR);
    if std::path::Path::new(&b_fail).exists() {
        let dst = format!("{}/C19-thread-safe-build-does-not-compile.log", replays_dir);
        let _ = std::fs::copy(format!("{}/target/build-b.log", VERIF_DIR), &dst);
        violations.push(("the --no-default-features (thread-safe) configuration no longer compiles while the default one does: the engine cannot be shared across threads".into(), dst));
    }

    let (kf_lines, wv, witness_report) = check_witnesses(prop, &findings, "replay");
    for l in &kf_lines {
        println!("{}", l);
    }
    violations.extend(wv);

    let mut agg = Agg::default();
    let mut diffs = 0u64;
    let mut compared = 0u64;
    if violations.is_empty() {
        // clause 1: schedules
        let (a, v19, ok) = spawn_workers(&exe_c, &["worker"], seed, total, workers, if quick { 200 } else { 1700 });
        agg = a;
        if !ok {
            eprintln!("harness error: a shuttle worker died");
            harness_error = true;
        }
        let mut seen = BTreeSet::new();
        for raw in &v19 {
            let v: Value = match serde_json::from_str(raw) {
                Ok(v) => v,
                Err(_) => continue,
            };
            let class = format!("{}/{}", v["violation"]["oracle"].as_str().unwrap_or(""), v["violation"]["what"].as_str().unwrap_or(""));
            if seen.contains(&class) || seen.len() >= 3 {
                continue;
            }
            seen.insert(class.clone());
            let sd = v["seed"].as_u64().unwrap_or(0);
            let rawp = format!("{}/C19-{}-raw.json", replays_dir, sd);
            std::fs::write(&rawp, raw).unwrap();
            let minp = format!("{}/C19-{}.json", replays_dir, sd);
            let mo = Command::new(&exe_c).args(["minimize", &rawp, &minp]).stderr(Stdio::null()).output().expect("spawn");
            let path = if mo.status.code() == Some(0) && std::path::Path::new(&minp).exists() { minp.clone() } else { rawp.clone() };
            let ro = Command::new(&exe_c).args(["replay", &path]).stderr(Stdio::null()).output().expect("spawn");
            let rout = String::from_utf8_lossy(&ro.stdout).to_string();
            if ro.status.code() == Some(1) && rout.contains("REPRODUCED") {
                if path == minp {
                    let _ = std::fs::remove_file(&rawp);
                }
                violations.push((format!("{} : {}", class, v["violation"]["got"].as_str().unwrap_or("").chars().take(300).collect::<String>()), path));
            } else {
                eprintln!("harness error: C19 schedule violation (seed {}) did not replay: exit {:?} {}", sd, ro.status.code(), rout);
                harness_error = true;
            }
        }
        // clause 2: the two feature configurations answer identically (C06 histories, seed for seed)
        let exe_a = self_exe();
        let (da, _, oka) = spawn_workers(&exe_a, &["worker", "C06"], seed, diff_runs, workers, 600);
        let (db, _, okb) = spawn_workers(&exe_b, &["worker", "C06"], seed, diff_runs, workers, 600);
        if !oka || !okb {
            eprintln!("harness error: a differential worker died");
            harness_error = true;
        }
        for (idx, (d, _)) in &da.digests {
            if let Some((d2, _)) = db.digests.get(idx) {
                compared += 1;
                if d != d2 {
                    diffs += 1;
                    if diffs <= 1 {
                        // write the trace of that run as the replay artefact
                        let (t, _) = hist::run_seed(crate::exec::Check::C06, seed, *idx);
                        let p = format!("{}/C19-config-differential-{}.json", replays_dir, t.seed);
                        let mut t = t;
                        t.note = format!("event-log digest differs between the default build ({:x}) and the thread-safe build ({:x}); replay with both binaries: target/a/release/adsim replay / target/b/release/adsim replay", d, d2);
                        std::fs::write(&p, serde_json::to_string_pretty(&t).unwrap()).unwrap();
                        violations.push((format!("default and thread-safe builds answer differently for history run {}", idx), p));
                    }
                }
            }
        }
        for t in db.violations.iter().take(1) {
            // the thread-safe build violates C06 where the default one does not
            if !da.violations.iter().any(|x| x.seed == t.seed) {
                let p = format!("{}/C19-threadsafe-build-history-{}.json", replays_dir, t.seed);
                std::fs::write(&p, serde_json::to_string_pretty(t).unwrap()).unwrap();
                violations.push(("thread-safe build fails a history check that the default build passes".into(), p));
            }
        }
    }
    let wall = t0.elapsed().as_secs_f64();
    let g = |k: &str| agg.stats.get(k).copied().unwrap_or(0);
    let ev = json!({
        "property_id": prop,
        "tier": if quick { "quick" } else { "thorough" },
        "seed": seed,
        "level": "exploration",
        "wall_s": wall,
        "violations": violations.len(),
        "coverage": {
            "evaluations": agg.runs,
            "distinct_nontrivial": agg.nontrivial_shapes.len(),
            "rule": "one evaluation = one shuttle execution (one seeded schedule) of a generated scenario: the real thread-safe build of the crate (sources of /repo with std::sync/std::thread redirected to shuttle), one shared Arc<Engine> or Arc<Blocker> with regex-heavy rules, 1-3 concurrent phases of 2-4 threads x 1-6 mixed queries (network, csp, cosmetic; on the blocker also set_regex_discard_policy / discard_regex / debug info) with a tag switch or optimize() under exclusive access between phases and the rule allocations served by the seeded allocator (address reuse), aggressive or default-like discard policy and a clock that advances on every read so cleanup, discard and recompile happen inside critical sections, with scheduling points inside RegexManager. Each concurrent answer is compared with the answer of a twin engine queried sequentially. Non-trivial: >= 2 threads and >= 1 regex-manager call; distinct = distinct (scenario seed, digest of yield/clock/probe counters of the execution).",
            "samples": agg.samples,
            "exhaustive": false,
            "runs_per_hour": if wall > 0.0 { (agg.runs as f64 / wall * 3600.0) as u64 } else { 0 },
            "distinct_execution_digests": agg.states.len(),
            "schedulers": {"random": g("scheduler_random"), "pct_depth1": g("scheduler_pct1"), "pct_depth2": g("scheduler_pct2"), "pct_depth3": g("scheduler_pct3")},
            "phases_total": g("phases"),
            "tag_switches_or_optimize_between_concurrent_phases": g("mutations_between_phases"),
            "threads_total": g("threads"),
            "queries_total": g("queries"),
            "rwlock_scenarios_with_long_lived_workers_and_a_mutator_thread": g("rwlock_scenarios"),
            "scenarios_with_a_second_engine_queried_concurrently": g("scenarios_with_second_engine"),
            "shared_engine_runs": g("shared_engine_runs"),
            "shared_blocker_runs": g("shared_blocker_runs"),
            "scheduling_points_reached_inside_regex_manager": g("yield_points_reached"),
            "simulated_clock_reads": g("clock_reads"),
            "faults_injected": {
                "preemption_points_inside_critical_section": g("yield_points_reached"),
                "cleanup_fired": g("probe_cleanup_fired"),
                "regex_discarded_by_cleanup": g("probe_cleanup_discarded"),
                "regex_discarded_explicitly": g("probe_explicit_discard"),
                "regex_recompiled_after_discard": g("probe_recompiled"),
            },
            "configuration_differential": {"history_runs_compared": compared, "digest_differences": diffs},
            "witnesses": witness_report,
            "components_real": ["adblock crate from /repo working tree, thread-safe configuration (--no-default-features + embedded-domain-resolver, full-regex-handling, regex-debug-info)", "regex, serde, seahash, addr (unmodified)"],
            "components_stub": ["std::sync::Mutex / std::thread -> shuttle (textual redirection in a generated copy of /repo/src)", "thread scheduler: shuttle RandomScheduler / PctScheduler, seeded", "clock: simulated, advances on every read", "libc getrandom: interposed"],
        },
        "assumptions": ["shuttle preempts only at synchronisation operations and at the hook's scheduling points inside RegexManager: a data race on memory not guarded by the mutex is outside its view", "the static Send + Sync assertion in the crate is checked by compiling the thread-safe configuration"],
    });
    write_evidence(prop, &ev);
    if harness_error {
        return 2;
    }
    if !violations.is_empty() {
        for (what, path) in &violations {
            println!("VIOLATION property={} replay={}", prop, path);
            println!("  {}", what);
        }
        return 1;
    }
    println!("OK property={} schedules={} distinct_nontrivial={} differential_runs={} wall_s={:.1}", prop, agg.runs, agg.nontrivial_shapes.len(), compared, wall);
    0
}
