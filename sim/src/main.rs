//! adsim — deterministic simulation harness for brave/adblock-rust.

mod c09;
mod c10;
mod c10gen;
mod driver;
mod exec;
mod hist;
mod minimize;
mod rng;
mod seams;
mod world;

use std::io::Write;

#[global_allocator]
static GLOBAL: seams::SimAlloc = seams::SimAlloc;

fn arg_val(args: &[String], name: &str) -> Option<String> {
    args.iter().position(|a| a == name).and_then(|i| args.get(i + 1).cloned())
}

fn init_process() {
    let class = std::mem::size_of::<adblock::filters::network::NetworkFilter>() + 2 * std::mem::size_of::<usize>();
    seams::init(class);
    exec::install_quiet_panic_hook();
}

fn main() {
    let args: Vec<String> = std::env::args().collect();
    if args.len() < 2 {
        eprintln!("usage: adsim <cmd> ...");
        std::process::exit(2);
    }
    init_process();
    match args[1].as_str() {
        "hist" => {
            // adsim hist <C0x> --seed S --from a --to b
            let check = hist::parse_check(&args[2]).expect("property");
            let seed: u64 = arg_val(&args, "--seed").map(|s| s.parse().unwrap()).unwrap_or(1);
            let from: u64 = arg_val(&args, "--from").map(|s| s.parse().unwrap()).unwrap_or(0);
            let to: u64 = arg_val(&args, "--to").map(|s| s.parse().unwrap()).unwrap_or(10);
            let verbose = args.iter().any(|a| a == "-v");
            let out = std::io::stdout();
            let mut nviol = 0;
            for i in from..to {
                let (t, o) = hist::run_seed(check, seed, i);
                if let Some(v) = &o.outcome.violation {
                    nviol += 1;
                    let mut t = t.clone();
                    t.violation = Some(v.clone());
                    let _ = writeln!(out.lock(), "VIOL idx={} {}", i, serde_json::to_string(v).unwrap());
                    if verbose {
                        let _ = writeln!(out.lock(), "{}", serde_json::to_string(&t).unwrap());
                    }
                } else if verbose {
                    let _ = writeln!(out.lock(), "ok idx={} digest={:x} stats={}", i, o.outcome.digest, serde_json::to_string(&o.outcome.stats).unwrap());
                }
            }
            println!("done runs={} violations={}", to - from, nviol);
        }
        "alloctrace" => {
            // debug: adsim alloctrace <C0x> --idx N [--pre K] [--bt EVENT]
            let check = hist::parse_check(&args[2]).expect("property");
            let idx: u64 = arg_val(&args, "--idx").map(|s| s.parse().unwrap()).unwrap_or(0);
            let pre: u64 = arg_val(&args, "--pre").map(|s| s.parse().unwrap()).unwrap_or(0);
            driver::warm_up();
            for i in 0..pre {
                let _ = hist::run_seed(check, 1, i);
            }
            if let Some(l) = arg_val(&args, "--prelist") {
                for x in l.split(',') {
                    let _ = hist::run_seed(check, 1, x.parse().unwrap());
                }
            }
            if let Some(b) = arg_val(&args, "--bt") {
                seams::TRACE_BT_AT.store(b.parse().unwrap(), std::sync::atomic::Ordering::SeqCst);
            }
            seams::TRACE_ON.store(true, std::sync::atomic::Ordering::SeqCst);
            let leak = args.iter().any(|a| a == "--leaks");
            if leak {
                seams::LEAK_ON.store(true, std::sync::atomic::Ordering::SeqCst);
            }
            let (_t, o) = hist::run_seed(check, 1, idx);
            if leak {
                seams::leak_report();
            }
            seams::TRACE_ON.store(false, std::sync::atomic::Ordering::SeqCst);
            let ev = seams::trace_take();
            println!("digest {:x} alloc {:x} events {}", o.outcome.digest, o.outcome.stats.alloc_digest, ev.len());
            for (i, e) in ev.iter().enumerate() {
                println!("{} {}", i, e);
            }
        }
        "gen" => {
            let check = hist::parse_check(&args[2]).expect("property");
            let idx: u64 = arg_val(&args, "--idx").map(|s| s.parse().unwrap()).unwrap_or(0);
            let t = hist::generate(check, rng::mix3(1, rng::tag_of(check.id()), idx));
            println!("{}", serde_json::to_string(&t).unwrap());
        }
        "min" => {
            let check = hist::parse_check(&args[2]).expect("property");
            let seed: u64 = arg_val(&args, "--seed").map(|s| s.parse().unwrap()).unwrap_or(1);
            let idx: u64 = arg_val(&args, "--idx").map(|s| s.parse().unwrap()).unwrap_or(0);
            let (t, o) = hist::run_seed(check, seed, idx);
            match o.outcome.violation {
                None => println!("no violation"),
                Some(v) => {
                    let (mt, mv, ms) = minimize::minimize(check, &t, &v);
                    println!("executions={}", ms.executions);
                    println!("blocker={} knobs={:?}", mt.blocker, mt.world.knobs);
                    for r in &mt.world.rules {
                        println!("  rule[{}]: {}", r.perm, r.text());
                    }
                    for (i, r) in mt.world.extra.iter().enumerate() {
                        println!("  extra#{}: {}", i, r.text());
                    }
                    println!("  ops: {:?}", mt.ops);
                    println!("  violation: step={} op={} oracle={}\n    what={}\n    got ={}\n    want={}", mv.step, mv.op, mv.oracle, mv.what, mv.got, mv.want);
                    if let Some(out) = arg_val(&args, "--out") {
                        std::fs::write(&out, serde_json::to_string_pretty(&mt).unwrap()).unwrap();
                    }
                }
            }
        }
        "worker" => {
            let prop = args[2].clone();
            let g = |n: &str, d: u64| arg_val(&args, n).map(|s| s.parse().unwrap()).unwrap_or(d);
            let reverse = args.iter().any(|a| a == "--reverse");
            driver::worker_hist(&prop, g("--seed", 1), g("--start", 0), g("--stride", 1), g("--count", 10), g("--deadline", 3600), arg_val(&args, "--breadcrumb"), reverse);
        }
        "run" => {
            let prop = args[2].clone();
            let tier = arg_val(&args, "--tier").or_else(|| std::env::var("VERIF_TIER").ok()).unwrap_or_else(|| "quick".into());
            let seed: u64 = arg_val(&args, "--seed").or_else(|| std::env::var("VERIF_SEED").ok()).and_then(|s| s.parse().ok()).unwrap_or(1);
            let workers: u64 = arg_val(&args, "--workers").and_then(|s| s.parse().ok()).unwrap_or(16);
            let runs: Option<u64> = arg_val(&args, "--runs").and_then(|s| s.parse().ok());
            let code = match prop.as_str() {
                "C05" | "C06" | "C07" | "C08" => driver::run_hist_check(&prop, &tier, seed, workers, runs),
                "C09" => driver::run_c09_check(&tier, seed, workers, runs),
                "C10" => driver::run_c10_check(&tier, seed, workers, runs),
                "C19" => driver::run_c19_check(&tier, seed, workers, runs),
                _ => {
                    eprintln!("unknown property {}", prop);
                    2
                }
            };
            std::process::exit(code);
        }
        "worker-c09" => {
            let g = |n: &str, d: u64| arg_val(&args, n).map(|s| s.parse().unwrap()).unwrap_or(d);
            driver::worker_c09(g("--seed", 1), g("--start", 0), g("--stride", 1), g("--count", 10), g("--deadline", 3600), g("--child-pct", 0), args.iter().any(|a| a == "--passthrough"));
        }
        "c09-child" => {
            // build the world of a trace file in this (fresh) process under the given hash key
            let text = std::fs::read_to_string(&args[2]).expect("read");
            let t: hist::Trace = serde_json::from_str(&text).expect("parse");
            if args.iter().any(|a| a == "--passthrough") {
                seams::hashkey_passthrough();
            } else {
                seams::hashkey_set(arg_val(&args, "--key").map(|s| s.parse().unwrap()).unwrap_or(7));
            }
            let w = t.world.clone();
            let h = std::thread::Builder::new().stack_size(32 << 20).spawn(move || c09::build_bytes(&w, 0, &[])).unwrap();
            let (b, _) = h.join().expect("build");
            println!("{:x} {}", c09::bytes_digest(&b), b.len());
        }
        "replay-c09" | "minimize-c09" => {
            let text = std::fs::read_to_string(&args[2]).expect("read replay file");
            let t: hist::Trace = serde_json::from_str(&text).expect("parse replay file");
            driver::warm_up();
            let o = c09::execute(&t, true, false);
            if args[1] == "replay-c09" {
                match o.violation {
                    Some(v) => {
                        println!("REPRODUCED property=C09 oracle={}\n  what={}\n  got ={}\n  want={}", v.oracle, v.what, v.got, v.want);
                        std::process::exit(1);
                    }
                    None => println!("no violation"),
                }
            } else {
                match o.violation {
                    None => std::process::exit(3),
                    Some(v) => {
                        let f = |t: &hist::Trace| c09::execute(t, false, false).violation;
                        // the child-process comparison is not needed to shrink unless it is the failing one
                        let needs_child = v.what.contains("child-process");
                        let fc = |t: &hist::Trace| c09::execute(t, true, false).violation;
                        let (mut mt, mv, ms) = if needs_child { minimize::minimize_with(&fc, &t, &v) } else { minimize::minimize_with(&f, &t, &v) };
                        mt.note = format!("minimised from world seed {} in {} executions", t.seed, ms.executions);
                        mt.violation = Some(mv);
                        std::fs::write(&args[3], serde_json::to_string_pretty(&mt).unwrap()).unwrap();
                    }
                }
            }
        }
        "worker-c10" => {
            let g = |n: &str, d: u64| arg_val(&args, n).map(|s| s.parse().unwrap()).unwrap_or(d);
            driver::worker_c10(g("--seed", 1), g("--buffers", 2), g("--sampled", 100), g("--start", 0), g("--stride", 1), g("--skip-until", 0), g("--deadline", 3600), arg_val(&args, "--breadcrumb"), arg_val(&args, "--keys"));
        }
        "c10-case" => {
            // materialise one case of the enumeration as a replay file
            let g = |n: &str, d: u64| arg_val(&args, n).map(|s| s.parse().unwrap()).unwrap_or(d);
            let bs = c10::buffer_set(g("--seed", 1), g("--buffer", 0), g("--sampled", 400));
            let kind = arg_val(&args, "--kind").expect("--kind");
            let idx = g("--index", 0);
            let bytes = bs.space.case(&kind, idx);
            let rp = c10::replay_of(&bs, &kind, idx, &bytes, None);
            std::fs::write(arg_val(&args, "--out").expect("--out"), serde_json::to_string_pretty(&rp).unwrap()).unwrap();
        }
        "replay-c10" | "minimize-c10" => {
            let text = std::fs::read_to_string(&args[2]).expect("read replay file");
            let rp: c10::C10Replay = serde_json::from_str(&text).expect("parse replay file");
            driver::warm_up();
            let v = c10::execute_replay(&rp);
            if args[1] == "replay-c10" {
                match v {
                    Some(v) => {
                        println!("REPRODUCED property=C10 oracle={}\n  what={}\n  got ={}\n  want={}", v.oracle, v.what, v.got, v.want);
                        std::process::exit(1);
                    }
                    None => println!("no violation"),
                }
            } else {
                match v {
                    None => std::process::exit(3),
                    Some(v) => {
                        let mut m = c10::minimize_replay(&rp, &v);
                        m.note = "minimised: target rules dropped and corrupt byte string truncated while the same violation class persists".into();
                        std::fs::write(&args[3], serde_json::to_string_pretty(&m).unwrap()).unwrap();
                    }
                }
            }
        }
        "selfcheck" => {
            let seed: u64 = arg_val(&args, "--seed").or_else(|| std::env::var("VERIF_SEED").ok()).and_then(|s| s.parse().ok()).unwrap_or(1);
            let runs: u64 = arg_val(&args, "--runs").and_then(|s| s.parse().ok()).unwrap_or(2000);
            std::process::exit(driver::selfcheck(seed, runs));
        }
        "minimize" => {
            let text = std::fs::read_to_string(&args[2]).expect("read trace file");
            let t: hist::Trace = serde_json::from_str(&text).expect("parse trace file");
            let check = hist::parse_check(&t.property).expect("property");
            driver::warm_up();
            let o = hist::execute(check, &t);
            match o.outcome.violation {
                None => {
                    eprintln!("trace does not fail");
                    std::process::exit(3);
                }
                Some(v) => {
                    let (mut mt, mv, ms) = minimize::minimize(check, &t, &v);
                    mt.note = format!("minimised from run seed {} in {} executions", t.seed, ms.executions);
                    mt.violation = Some(mv);
                    std::fs::write(&args[3], serde_json::to_string_pretty(&mt).unwrap()).unwrap();
                }
            }
        }
        "replay" => {
            let text = std::fs::read_to_string(&args[2]).expect("read replay file");
            let generic: serde_json::Value = serde_json::from_str(&text).expect("parse replay file");
            if generic["kind"].as_str() == Some("sequence") {
                let check = hist::parse_check(generic["property"].as_str().unwrap_or("C06")).expect("property");
                let seed = generic["seed"].as_u64().unwrap_or(1);
                let order: Vec<u64> = generic["order"].as_array().map(|a| a.iter().filter_map(|x| x.as_u64()).collect()).unwrap_or_default();
                driver::warm_up();
                let mut last = None;
                for i in &order {
                    let (_, o) = hist::run_seed(check, seed, *i);
                    last = o.outcome.violation;
                }
                match last {
                    Some(v) => {
                        println!("REPRODUCED property={} oracle={} step={} op={}\n  what={} (after {} preceding runs in the same process)\n  got ={}\n  want={}", v.property, v.oracle, v.step, v.op, v.what, order.len() - 1, v.got, v.want);
                        std::process::exit(1);
                    }
                    None => {
                        println!("no violation");
                        return;
                    }
                }
            }
            if generic["kind"].as_str() == Some("isolation") {
                // run the listed runs in order in this process; compare the last one with itself run alone
                let check = hist::parse_check(generic["property"].as_str().unwrap_or("C06")).expect("property");
                let seed = generic["seed"].as_u64().unwrap_or(1);
                let order: Vec<u64> = generic["order"].as_array().map(|a| a.iter().filter_map(|x| x.as_u64()).collect()).unwrap_or_default();
                let target = *order.last().expect("order");
                if args.iter().any(|a| a == "--alone") {
                    driver::warm_up();
                    let (_, o) = hist::run_seed(check, seed, target);
                    println!("DIGEST {:x}", o.outcome.digest);
                    return;
                }
                driver::warm_up();
                let mut last = 0u64;
                for i in &order {
                    let (_, o) = hist::run_seed(check, seed, *i);
                    last = o.outcome.digest;
                }
                let alone = std::process::Command::new(std::env::current_exe().unwrap()).args(["replay", &args[2], "--alone"]).output().expect("spawn");
                let out = String::from_utf8_lossy(&alone.stdout).to_string();
                let d2 = out.trim().strip_prefix("DIGEST ").and_then(|x| u64::from_str_radix(x, 16).ok()).unwrap_or(0);
                if d2 != last {
                    println!("REPRODUCED property={} oracle=process-isolation\n  what=answers of run {} after {} other runs in the same process\n  got =digest {:x}\n  want=digest {:x} (the same run alone in a fresh process)", check.id(), target, order.len() - 1, last, d2);
                    std::process::exit(1);
                }
                println!("no violation (digest {:x})", last);
                return;
            }
            let t: hist::Trace = serde_json::from_str(&text).expect("parse replay file");
            let check = hist::parse_check(&t.property).expect("property");
            driver::warm_up();
            let o = hist::execute(check, &t);
            match o.outcome.violation {
                Some(v) => {
                    println!("REPRODUCED property={} oracle={} step={} op={}\n  what={}\n  got ={}\n  want={}", v.property, v.oracle, v.step, v.op, v.what, v.got, v.want);
                    std::process::exit(1);
                }
                None => {
                    println!("no violation (digest {:x})", o.outcome.digest);
                }
            }
        }
        _ => {
            eprintln!("unknown command");
            std::process::exit(2);
        }
    }
}
