//! Well-typed but hostile engine images, generated from scratch: every field has the type the
//! format expects, but the invariants the rule parser guarantees are violated at random (pattern
//! lists without alternatives, empty strings, anchor flags without hostname, unsorted or empty
//! domain lists, arbitrary mask bits, tags on any rule kind, ...). Byte noise practically never
//! produces these states; an attacker (or an older / buggy writer) can.

use std::collections::{BTreeMap, BTreeSet};

use serde::Serialize;

use crate::rng::Rng;

#[derive(Serialize, Clone)]
enum FilterPart {
    Empty,
    Simple(String),
    AnyOf(Vec<String>),
}

#[derive(Serialize, Clone)]
struct Nf {
    mask: u32,
    filter: FilterPart,
    opt_domains: Option<Vec<u64>>,
    opt_not_domains: Option<Vec<u64>>,
    redirect: Option<String>,
    hostname: Option<String>,
    csp: Option<String>,
    _bug: Option<u32>,
    tag: Option<String>,
    raw_line: Option<String>,
    id: u64,
    opt_domains_union: Option<u64>,
    opt_not_domains_union: Option<u64>,
}

#[derive(Serialize, Default)]
struct Nfl {
    filter_map: BTreeMap<u64, Vec<Nf>>,
}

#[derive(Serialize)]
enum Legacy {
    Hide(String),
    Unhide(String),
    Style(String, String),
    UnhideStyle(String, String),
    ScriptInject(String),
    UnhideScriptInject(String),
}

#[derive(Serialize, Default)]
struct LegacyDb {
    db: BTreeMap<u64, Vec<Legacy>>,
}

#[derive(Serialize)]
struct RedirectRes {
    content_type: String,
    data: String,
}
#[derive(Serialize, Default)]
struct RedirectStore {
    resources: BTreeMap<String, RedirectRes>,
}
#[derive(Serialize)]
struct ScriptletRes {
    scriptlet: String,
}
#[derive(Serialize, Default)]
struct ScriptletStore {
    resources: BTreeMap<String, ScriptletRes>,
}

#[derive(Serialize)]
struct Format {
    csp: Nfl,
    exceptions: Nfl,
    importants: Nfl,
    redirects: Nfl,
    filters_tagged: Nfl,
    filters: Nfl,
    generic_hide: Nfl,
    tagged_filters_all: Vec<Nf>,
    enable_optimizations: bool,
    resources: RedirectStore,
    simple_class_rules: BTreeSet<String>,
    simple_id_rules: BTreeSet<String>,
    complex_class_rules: BTreeMap<String, Vec<String>>,
    complex_id_rules: BTreeMap<String, Vec<String>>,
    specific_rules: LegacyDb,
    misc_generic_selectors: BTreeSet<String>,
    scriptlets: ScriptletStore,
    procedural_action: BTreeMap<u64, Vec<String>>,
    procedural_action_exception: BTreeMap<u64, Vec<String>>,
    removeparam: Nfl,
    inject_script: BTreeMap<u64, Vec<(String, u8)>>,
}

const WORDS: &[&str] = &["ad", "ads", "banner", "track", "pixel", "img", "js", "api", "example", "com", "tracker", "net", "https", "http", "foo", "org"];
const STRS: &[&str] = &["", "a", "/", "/ads/", "ad*js", "^ads^", "/a[0-9]+/", "|", "*", "x:1", "noop.js", "noop.js:", ":5", "utm", "script-src 'none'", "example.com", "Example.com", "ads.example.com", "+js()", "set, a, 1", "{}", "{\"selector\":[]}", "é"];
const TAGS: &[&str] = &["t1", "t2", "t3", ""];

fn hash(s: &str) -> u64 {
    adblock::utils::fast_hash(s)
}

fn s(r: &mut Rng) -> String {
    (*r.pick(STRS)).to_string()
}

fn gen_nf(r: &mut Rng, theme_mask: u32, theme_tag: &Option<String>) -> Nf {
    // plausible type / scheme / party bits, plus random structural flags
    let base: u32 = 0x7ff | (1 << 11) | (1 << 12) | (1 << 16) | (1 << 17);
    let mut mask = if r.chance(60) { theme_mask } else { base };
    for bit in [13u32, 14, 15, 18, 19, 20, 21, 22, 23, 24, 26, 27, 28, 29, 30, 31] {
        if r.chance(10) {
            mask ^= 1 << bit;
        }
    }
    if r.chance(5) {
        mask = r.next() as u32;
    }
    let filter = match r.below(8) {
        0 => FilterPart::Empty,
        1 => FilterPart::AnyOf(vec![]),
        2 => FilterPart::AnyOf(vec![s(r)]),
        3 => FilterPart::AnyOf((0..r.range(2, 4)).map(|_| s(r)).collect()),
        _ => FilterPart::Simple(s(r)),
    };
    let doms = |r: &mut Rng| -> Option<Vec<u64>> {
        match r.below(6) {
            0 => Some(vec![]),
            1 => Some(vec![hash("example.com")]),
            2 => Some(vec![hash("tracker.net"), hash("example.com"), 1]),
            _ => None,
        }
    };
    Nf {
        mask,
        filter,
        opt_domains: doms(r),
        opt_not_domains: doms(r),
        redirect: if r.chance(25) { Some(s(r)) } else { None },
        hostname: match r.below(5) {
            0 => Some(String::new()),
            1 => Some(s(r)),
            2 => Some("example.com".to_string()),
            _ => None,
        },
        csp: if r.chance(20) { Some(s(r)) } else { None },
        _bug: None,
        tag: if r.chance(50) { theme_tag.clone() } else if r.chance(30) { Some((*r.pick(TAGS)).to_string()) } else { None },
        raw_line: if r.chance(40) { Some(s(r)) } else { None },
        id: if r.chance(30) { r.below(4) as u64 } else { r.next() },
        opt_domains_union: if r.chance(30) { Some(r.next()) } else { None },
        opt_not_domains_union: if r.chance(30) { Some(r.next()) } else { None },
    }
}

/// A near copy of `t`: most fields kept, so that a list holds several rules with the same mask, tag
/// and shape (what grouping / fusing / de-duplicating code paths need to do anything).
fn vary(r: &mut Rng, t: &Nf, theme_mask: u32, theme_tag: &Option<String>) -> Nf {
    let fresh = gen_nf(r, theme_mask, theme_tag);
    let mut c = t.clone();
    if r.chance(15) {
        c.filter = fresh.filter;
    }
    if r.chance(10) {
        c.mask = fresh.mask;
    }
    if r.chance(10) {
        c.tag = fresh.tag;
    }
    if r.chance(10) {
        c.hostname = fresh.hostname;
    }
    if r.chance(10) {
        c.opt_domains = fresh.opt_domains;
    }
    c.id = if r.chance(20) { t.id } else { r.next() };
    c
}

fn gen_nfl(r: &mut Rng, theme_mask: u32, theme_tag: &Option<String>) -> Nfl {
    let mut m = BTreeMap::new();
    let nb = r.below(4);
    for _ in 0..nb {
        let key = match r.below(4) {
            0 => 0,
            1 => hash("example.com"),
            _ => hash(*r.pick(WORDS)),
        };
        let n = r.range(0, 4);
        if r.chance(35) {
            let t = gen_nf(r, theme_mask, theme_tag);
            m.insert(key, (0..n + 1).map(|_| vary(r, &t, theme_mask, theme_tag)).collect());
        } else {
            m.insert(key, (0..n).map(|_| gen_nf(r, theme_mask, theme_tag)).collect());
        }
    }
    Nfl { filter_map: m }
}

/// One hostile, well-typed image.
pub fn typed_hostile(seed: u64, idx: u64) -> Vec<u8> {
    let mut r = Rng::new(crate::rng::mix3(seed, 0x7e9d, idx));
    let base: u32 = 0x7ff | (1 << 11) | (1 << 12) | (1 << 16) | (1 << 17);
    let theme_mask = base | if r.chance(30) { 1 << 22 } else { 0 } | if r.chance(20) { 1 << 13 } else { 0 };
    let theme_tag = if r.chance(70) { Some((*r.pick(TAGS)).to_string()) } else { None };
    let strs = |r: &mut Rng, n: usize| -> Vec<String> { (0..n).map(|_| s(r)).collect() };
    let sset = |r: &mut Rng| -> BTreeSet<String> { (0..r.below(4)).map(|_| s(r)).collect() };
    let smap = |r: &mut Rng| -> BTreeMap<String, Vec<String>> { (0..r.below(3)).map(|_| (s(r), (0..r.below(3)).map(|_| s(r)).collect())).collect() };
    let hmap = |r: &mut Rng| -> BTreeMap<u64, Vec<String>> { (0..r.below(3)).map(|_| (hash(*r.pick(&["example.com", "ads.example.com", "tracker.net"])), (0..r.below(3)).map(|_| s(r)).collect())).collect() };
    let mut legacy = LegacyDb::default();
    for _ in 0..r.below(3) {
        let h = hash(*r.pick(&["example.com", "ads.example.com", "tracker.net", "example"]));
        let v: Vec<Legacy> = (0..r.range(1, 4))
            .map(|_| match r.below(6) {
                0 => Legacy::Hide(s(&mut r)),
                1 => Legacy::Unhide(s(&mut r)),
                2 => Legacy::Style(s(&mut r), s(&mut r)),
                3 => Legacy::UnhideStyle(s(&mut r), s(&mut r)),
                4 => Legacy::ScriptInject(s(&mut r)),
                _ => Legacy::UnhideScriptInject(s(&mut r)),
            })
            .collect();
        legacy.db.insert(h, v);
    }
    let n_tagged = r.below(6);
    // the slots of resource stores that current writers leave empty (older writers bundled resources
    // there): names the rule vocabulary redirects to, with acceptable and unacceptable contents
    let mut lr = Rng::new(crate::rng::mix3(seed, 0x1e9a, idx));
    let mut old_redirects = RedirectStore::default();
    let mut old_scriptlets = ScriptletStore::default();
    if lr.chance(35) {
        for _ in 0..lr.range(1, 4) {
            let name = (*lr.pick(&["missing.js", "noop.js", "1x1.gif", "noop.txt", "blank", "smuggled.js", ""])).to_string();
            let content_type = (*lr.pick(&["application/javascript", "image/gif;base64", "text/plain", "", "fn/javascript", "template"])).to_string();
            let data = (*lr.pick(&["KGZ1bmN0aW9uKCl7fSkoKTs=", "R0lGODlhAQABAIAAAAAAAP///yH5BAEAAAAALAAAAAABAAEAAAIBRAA7", "", "!!!not base64!!!", "/w==", "e3sxfX0="])).to_string();
            old_redirects.resources.insert(name, RedirectRes { content_type, data });
        }
    }
    if lr.chance(20) {
        for _ in 0..lr.range(1, 3) {
            old_scriptlets.resources.insert((*lr.pick(&["noop.js", "set.js", "missing.js", ""])).to_string(), ScriptletRes { scriptlet: (*lr.pick(&["", "(function(){})();", "{{1}}", "!!!"])).to_string() });
        }
    }
    let f = Format {
        csp: gen_nfl(&mut r, theme_mask | (1 << 23) | (1 << 29), &theme_tag),
        exceptions: gen_nfl(&mut r, theme_mask | (1 << 22), &theme_tag),
        importants: gen_nfl(&mut r, theme_mask | (1 << 13), &theme_tag),
        redirects: gen_nfl(&mut r, theme_mask | (1 << 26), &theme_tag),
        filters_tagged: gen_nfl(&mut r, theme_mask, &theme_tag),
        filters: gen_nfl(&mut r, theme_mask, &None),
        generic_hide: gen_nfl(&mut r, theme_mask | (1 << 30) | (1 << 22), &None),
        tagged_filters_all: if r.chance(50) {
            // several near copies of one template, tokenless more often than not (one shared bucket)
            let mut t = gen_nf(&mut r, theme_mask, &theme_tag);
            if r.chance(60) {
                t.hostname = None;
                t.opt_domains = None;
                t.opt_not_domains = None;
                t.mask &= !(1 << 21);
                t.tag = Some((*r.pick(&["t1", "t2", "t3"])).to_string());
            }
            (0..n_tagged + 2).map(|_| vary(&mut r, &t, theme_mask, &theme_tag)).collect()
        } else {
            (0..n_tagged).map(|_| gen_nf(&mut r, theme_mask, &theme_tag)).collect()
        },
        enable_optimizations: r.chance(60),
        resources: old_redirects,
        simple_class_rules: sset(&mut r),
        simple_id_rules: sset(&mut r),
        complex_class_rules: smap(&mut r),
        complex_id_rules: smap(&mut r),
        specific_rules: legacy,
        misc_generic_selectors: sset(&mut r),
        scriptlets: old_scriptlets,
        procedural_action: hmap(&mut r),
        procedural_action_exception: hmap(&mut r),
        removeparam: gen_nfl(&mut r, theme_mask | (1 << 15), &None),
        inject_script: (0..r.below(3)).map(|_| (hash(*r.pick(&["example.com", "ads.example.com"])), strs(&mut r, 2).into_iter().map(|x| (x, r.below(4) as u8)).collect())).collect(),
    };
    let mut out = vec![0xd1, 0xd9, 0x3a, 0xaf, 0];
    let _ = rmp_serde::encode::write(&mut out, &f);
    out
}
