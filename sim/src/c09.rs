//! C09 — serialization is deterministic and a fixpoint under reload.
//!
//! The seam is S3: the harness owns std's hash seeds (interposed `getrandom`). The same rule list
//! is built under several hash keys, on fresh threads, with different allocator policies and
//! construction chunkings, and once in a child process; all buffers must be byte-identical. Then
//! `b -> deserialize (under yet another key) -> serialize` must give `b` back.

use std::collections::{BTreeSet, HashMap};

use adblock::Engine;

use crate::exec::*;
use crate::hist::Trace;
use crate::rng::{mix3, tag_of, Digest, Rng};
use crate::seams;
use crate::world::*;

pub const K_BUILDS: usize = 6;

pub fn profile() -> Profile {
    Profile {
        n_rules: (30, 140),
        n_probes: (4, 6),
        p_tag: 30,
        p_regexish: 40,
        cosmetic: true,
        removeparam: true,
        redirect: true,
        csp: true,
        badfilter: true,
        generichide: true,
        perms: true,
        tag_on_modifiers: false,
        extra: 0,
        tiny_patterns: true,
        non_ascii_urls: false,
        hostname_wildcards: true,
    }
}

pub fn generate(seed: u64) -> Trace {
    let mut w = gen_world(seed, &profile());
    // cosmetic-heavy variant in a third of the worlds so that every cosmetic bin holds several entries
    let mut r = Rng::stream(seed, "c09");
    if r.chance(35) {
        let p = profile();
        let n = r.range(20, 60);
        for _ in 0..n {
            w.rules.push(Rule { spec: RuleSpec::Cos(gen_cos_rule(&mut r, &p)), perm: 0 });
        }
    }
    Trace { property: "C09".into(), seed, blocker: false, world: w, ops: vec![], violation: None, note: String::new() }
}

fn on_thread<R: Send + 'static>(hash_key: Option<u64>, alloc_seed: u64, policy: u8, f: impl FnOnce() -> R + Send + 'static) -> Option<R> {
    match hash_key {
        Some(k) => seams::hashkey_set(k),
        None => seams::hashkey_passthrough(),
    }
    let h = std::thread::Builder::new()
        .stack_size(32 << 20)
        .spawn(move || {
            set_quiet(true);
            seams::run_begin(alloc_seed, seams::Policy::from_u8(policy));
            let r = std::panic::catch_unwind(std::panic::AssertUnwindSafe(f));
            let _ = seams::run_end();
            r.ok()
        })
        .expect("spawn");
    h.join().ok().flatten()
}

/// The iteration order std gives a fixed key set on this thread: evidence that the seam varies it.
fn order_probe() -> u64 {
    let mut m: HashMap<u64, ()> = HashMap::new();
    for i in 0..8u64 {
        m.insert(i * 7919, ());
    }
    let mut d = Digest::new();
    for k in m.keys() {
        d.u64(*k);
    }
    d.0
}

pub fn build_bytes(w: &World, mode: u8, tags: &[String]) -> (Vec<u8>, u64) {
    build_bytes_h(w, mode, tags, 0)
}

/// `history` selects how the same final tag set is reached: 0 = one use_tags call, 1 = one
/// enable_tags call per tag, 2 = use_tags of a superset then disable_tags of the rest.
pub fn build_bytes_h(w: &World, mode: u8, tags: &[String], history: u8) -> (Vec<u8>, u64) {
    let order = order_probe();
    let s = seams::track(|| Sut::build(&w.rules, &[], w.knobs.optimize, w.knobs.debug, mode, false, None));
    let bytes = match s {
        Sut::Engine(mut e) => {
            if !tags.is_empty() {
                let tv: Vec<&str> = tags.iter().map(|s| s.as_str()).collect();
                match history {
                    1 => {
                        for t in &tv {
                            seams::track(|| e.enable_tags(&[*t]));
                        }
                    }
                    2 => {
                        let all: Vec<&str> = w.tags.iter().map(|s| s.as_str()).collect();
                        let rest: Vec<&str> = all.iter().filter(|t| !tv.contains(t)).cloned().collect();
                        seams::track(|| e.use_tags(&all));
                        seams::track(|| e.disable_tags(&rest));
                    }
                    _ => seams::track(|| e.use_tags(&tv)),
                }
            }
            e.serialize_raw().unwrap_or_default()
        }
        _ => vec![],
    };
    (bytes, order)
}

pub struct C09Out {
    pub violation: Option<Violation>,
    pub builds: u64,
    pub reloads: u64,
    pub child_builds: u64,
    pub orders: BTreeSet<u64>,
    pub bytes_len: usize,
    pub digest: u64,
}

fn first_diff(a: &[u8], b: &[u8]) -> String {
    let n = a.len().min(b.len());
    let mut i = 0;
    while i < n && a[i] == b[i] {
        i += 1;
    }
    format!("len {} vs {}, first difference at offset {}", a.len(), b.len(), i)
}

fn viol(oracle: &str, what: &str, got: String, want: String) -> Violation {
    Violation { property: "C09".into(), oracle: oracle.into(), step: 0, op: "serialize".into(), what: what.into(), got, want }
}

pub fn child_bytes_digest(t: &Trace, key: Option<u64>) -> Option<(u64, usize)> {
    // the world goes to the child through a file; the child prints "<digest> <len>"
    let dir = format!("{}/target/scratch", crate::driver::VERIF_DIR);
    let _ = std::fs::create_dir_all(&dir);
    let path = format!("{}/c09-child-{}-{}.json", dir, std::process::id(), t.seed);
    std::fs::write(&path, serde_json::to_string(t).ok()?).ok()?;
    let mut cmd = std::process::Command::new(crate::driver::self_exe());
    cmd.arg("c09-child").arg(&path);
    match key {
        Some(k) => {
            cmd.arg("--key").arg(k.to_string());
        }
        None => {
            cmd.arg("--passthrough");
        }
    }
    let o = cmd.output().ok()?;
    let _ = std::fs::remove_file(&path);
    let s = String::from_utf8_lossy(&o.stdout);
    let mut it = s.split_whitespace();
    let d = u64::from_str_radix(it.next()?, 16).ok()?;
    let l: usize = it.next()?.parse().ok()?;
    Some((d, l))
}

pub fn bytes_digest(b: &[u8]) -> u64 {
    let mut d = Digest::new();
    d.bytes(b);
    d.0
}

pub fn execute(t: &Trace, with_child: bool, passthrough_child: bool) -> C09Out {
    let w = &t.world;
    let seed = t.seed;
    let mut out = C09Out { violation: None, builds: 0, reloads: 0, child_builds: 0, orders: BTreeSet::new(), bytes_len: 0, digest: 0 };
    let mut kr = Rng::stream(seed, "c09-keys");
    let mut reference: Option<Vec<u8>> = None;
    let modes = [0u8, 1, 2, 0, 2, 1];
    for k in 0..K_BUILDS {
        let key = kr.next();
        let w2 = w.clone();
        let mode = modes[k];
        let r = on_thread(Some(key), kr.next(), k as u8, move || build_bytes(&w2, mode, &[]));
        out.builds += 1;
        match r {
            None => {
                out.violation = Some(viol("no-panic", "panic while building/serializing", last_panic(), "no panic".into()));
                return out;
            }
            Some((b, order)) => {
                out.orders.insert(order);
                match &reference {
                    None => {
                        out.bytes_len = b.len();
                        out.digest = bytes_digest(&b);
                        reference = Some(b)
                    }
                    Some(r0) => {
                        if &b != r0 {
                            out.violation = Some(viol(
                                "byte-identical-builds",
                                &format!("bytes build#{} (mode {}) vs build#0", k, mode),
                                first_diff(&b, r0),
                                "identical buffers".into(),
                            ));
                            return out;
                        }
                    }
                }
            }
        }
    }
    let b0 = reference.unwrap();
    // the same list built on a thread that built (or still holds) *another* engine first: a sibling with
    // the other optimise setting kept alive, or one with the other debug setting built and dropped.
    // Process- or thread-wide interning / memo tables in the code under test show up here.
    for pre in 1..=2u8 {
        let w2 = w.clone();
        let r = on_thread(Some(kr.next()), kr.next(), pre, move || {
            let sibling = if pre == 1 {
                Some(Sut::build(&w2.rules, &[], !w2.knobs.optimize, w2.knobs.debug, 0, false, None))
            } else {
                let _ = Sut::build(&w2.rules, &[], w2.knobs.optimize, !w2.knobs.debug, 0, false, None);
                None
            };
            let out = build_bytes(&w2, 0, &[]);
            drop(sibling);
            out
        });
        out.builds += 1;
        match r {
            None => {
                out.violation = Some(viol("no-panic", "panic while building after a sibling engine", last_panic(), "no panic".into()));
                return out;
            }
            Some((b, _)) => {
                if b != b0 {
                    out.violation = Some(viol(
                        "byte-identical-builds",
                        &format!("bytes build after sibling engine on the same thread (variant {}: 1 = other optimise setting, kept alive; 2 = other debug setting, dropped) vs build#0", pre),
                        first_diff(&b, &b0),
                        "identical buffers".into(),
                    ));
                    return out;
                }
            }
        }
    }
    // (the key is drawn whether or not the child runs, so that every other build sees the same keys in
    // the search, in the minimiser and in a replay)
    let child_key = kr.next();
    if with_child {
        let key = if passthrough_child { None } else { Some(child_key) };
        out.child_builds += 1;
        match child_bytes_digest(t, key) {
            Some((d, l)) => {
                if d != bytes_digest(&b0) || l != b0.len() {
                    out.violation = Some(viol("byte-identical-builds", "bytes child-process build vs build#0", format!("digest {:x} len {}", d, l), format!("digest {:x} len {}", bytes_digest(&b0), b0.len())));
                    return out;
                }
            }
            None => {
                out.violation = Some(viol("no-panic", "panic child process failed", "no output".into(), "digest".into()));
                return out;
            }
        }
    }
    // fixpoint: load under another key, serialize again; also after a tag round trip
    for variant in 0..4u8 {
        let key = kr.next();
        let b = b0.clone();
        let opt = w.knobs.optimize;
        let tags: Vec<String> = w.tags.clone();
        let r = on_thread(Some(key), kr.next(), variant, move || {
            let mut e = Engine::new(if variant == 1 { !opt } else { opt });
            if seams::track(|| e.deserialize(&b)).is_err() {
                return Err("deserialize of own bytes failed".to_string());
            }
            if variant == 2 {
                let tv: Vec<&str> = tags.iter().map(|s| s.as_str()).collect();
                seams::track(|| e.use_tags(&tv));
                seams::track(|| e.use_tags(&[]));
            }
            if variant == 3 {
                let tv: Vec<&str> = tags.iter().map(|s| s.as_str()).collect();
                seams::track(|| e.enable_tags(&tv));
                seams::track(|| e.disable_tags(&tv));
            }
            e.serialize_raw().map_err(|e| format!("{:?}", e))
        });
        out.reloads += 1;
        match r {
            None => {
                out.violation = Some(viol("no-panic", "panic while reloading", last_panic(), "no panic".into()));
                return out;
            }
            Some(Err(e)) => {
                out.violation = Some(viol("reload-fixpoint", "reload error", e, "Ok".into()));
                return out;
            }
            Some(Ok(b2)) => {
                if b2 != b0 {
                    out.violation = Some(viol("reload-fixpoint", &format!("bytes reload variant {} (0 plain, 1 other optimise knob, 2 tag round trip, 3 enable then disable all tags)", variant), first_diff(&b2, &b0), "identical buffers".into()));
                    return out;
                }
            }
        }
    }
    // engines serialized with tags enabled: two builds under different keys agree, and a reload into an
    // engine with the same tags enabled is a fixpoint
    let tags: Vec<String> = w.tags.iter().take(2).cloned().collect();
    let mut tb: Option<Vec<u8>> = None;
    // (the same enabled set reached through different tag histories must give the same bytes: a loaded
    // engine always rebuilds its tagged list from scratch, so anything else breaks the reload fixpoint)
    for k in 0..4 {
        let w2 = w.clone();
        let tg = tags.clone();
        let r = on_thread(Some(kr.next()), kr.next(), k as u8 + 1, move || build_bytes_h(&w2, (k % 3) as u8, &tg, if k < 2 { 0 } else { k as u8 - 1 }));
        out.builds += 1;
        match (r, &tb) {
            (None, _) => {
                out.violation = Some(viol("no-panic", "panic while building with tags", last_panic(), "no panic".into()));
                return out;
            }
            (Some((b, _)), None) => tb = Some(b),
            (Some((b, _)), Some(b1)) => {
                if &b != b1 {
                    out.violation = Some(viol("byte-identical-builds", &format!("bytes tagged build#{} (0,1: use_tags; 2: enable_tags one by one; 3: use_tags superset + disable_tags) vs tagged build#0", k), first_diff(&b, b1), "identical buffers".into()));
                    return out;
                }
            }
        }
    }
    let b1 = tb.unwrap();
    {
        // an image written with tags enabled, loaded by an engine that has none enabled, is the
        // engine of the plain list again: its bytes are those of the untagged build
        let b = b1.clone();
        let opt = w.knobs.optimize;
        let r = on_thread(Some(kr.next()), kr.next(), 1, move || {
            let mut e = Engine::new(opt);
            if seams::track(|| e.deserialize(&b)).is_err() {
                return Err("deserialize failed".to_string());
            }
            e.serialize_raw().map_err(|e| format!("{:?}", e))
        });
        out.reloads += 1;
        match r {
            Some(Ok(b2)) if b2 == b0 => {}
            Some(Ok(b2)) => {
                out.violation = Some(viol("reload-fixpoint", "bytes tagged image loaded into an engine without tags vs the untagged build", first_diff(&b2, &b0), "identical buffers".into()));
                return out;
            }
            Some(Err(e)) => {
                out.violation = Some(viol("reload-fixpoint", "reload error", e, "Ok".into()));
                return out;
            }
            None => {
                out.violation = Some(viol("no-panic", "panic while reloading tagged image", last_panic(), "no panic".into()));
                return out;
            }
        }
    }
    {
        let b = b1.clone();
        let tg = tags.clone();
        let opt = w.knobs.optimize;
        let r = on_thread(Some(kr.next()), kr.next(), 2, move || {
            let mut e = Engine::new(opt);
            let tv: Vec<&str> = tg.iter().map(|s| s.as_str()).collect();
            e.use_tags(&tv);
            if seams::track(|| e.deserialize(&b)).is_err() {
                return Err("deserialize failed".to_string());
            }
            e.serialize_raw().map_err(|e| format!("{:?}", e))
        });
        out.reloads += 1;
        match r {
            Some(Ok(b2)) if b2 == b1 => {}
            Some(Ok(b2)) => {
                out.violation = Some(viol("reload-fixpoint", "bytes reload of tagged engine into engine with the same tags", first_diff(&b2, &b1), "identical buffers".into()));
                return out;
            }
            Some(Err(e)) => {
                out.violation = Some(viol("reload-fixpoint", "reload error", e, "Ok".into()));
                return out;
            }
            None => {
                out.violation = Some(viol("no-panic", "panic while reloading tagged", last_panic(), "no panic".into()));
                return out;
            }
        }
    }
    // load histories on an engine that keeps its tags enabled: a rejected load, or a load of an image
    // without any tagged rule, in between must leave nothing behind -- loading the tagged image
    // afterwards reproduces it byte for byte
    for hist in 0..3u8 {
        let b = b1.clone();
        let tg = tags.clone();
        let opt = w.knobs.optimize;
        let r = on_thread(Some(kr.next()), kr.next(), hist, move || {
            let mut e = Engine::new(opt);
            let tv: Vec<&str> = tg.iter().map(|s| s.as_str()).collect();
            seams::track(|| e.use_tags(&tv));
            match hist {
                0 => {
                    if seams::track(|| e.deserialize(&b[..b.len() / 2])).is_ok() {
                        return Err("half an image was accepted".to_string());
                    }
                }
                1 => {
                    let empty = Engine::new(opt).serialize_raw().map_err(|e| format!("{:?}", e))?;
                    if seams::track(|| e.deserialize(&empty)).is_err() {
                        return Err("deserialize of an empty engine's image failed".to_string());
                    }
                }
                _ => {
                    if seams::track(|| e.deserialize(&b)).is_err() {
                        return Err("deserialize failed".to_string());
                    }
                    if seams::track(|| e.deserialize(&[])).is_ok() {
                        return Err("an empty buffer was accepted".to_string());
                    }
                    seams::track(|| e.enable_tags(&[]));
                    return e.serialize_raw().map_err(|e| format!("{:?}", e));
                }
            }
            if seams::track(|| e.deserialize(&b)).is_err() {
                return Err("deserialize failed".to_string());
            }
            e.serialize_raw().map_err(|e| format!("{:?}", e))
        });
        out.reloads += 1;
        match r {
            Some(Ok(b2)) if b2 == b1 => {}
            Some(Ok(b2)) => {
                out.violation = Some(viol("reload-fixpoint", &format!("bytes load history {} (0: rejected load, then the tagged image; 1: image of an empty engine, then the tagged image; 2: the tagged image, a rejected load, enable_tags of nothing) on an engine with tags enabled vs the tagged build", hist), first_diff(&b2, &b1), "identical buffers".into()));
                return out;
            }
            Some(Err(e)) => {
                out.violation = Some(viol("reload-fixpoint", "load history error", e, "Ok".into()));
                return out;
            }
            None => {
                out.violation = Some(viol("no-panic", "panic during a load history", last_panic(), "no panic".into()));
                return out;
            }
        }
    }
    out
}

pub fn run_seed(base: u64, idx: u64, with_child: bool, passthrough: bool) -> (Trace, C09Out) {
    let s = mix3(base, tag_of("C09"), idx);
    let t = generate(s);
    let o = execute(&t, with_child, passthrough);
    (t, o)
}

/// Size of the serialized containers of the world: how many hold >= 4 entries (reach measure).
pub fn container_stats(w: &World) -> (usize, usize) {
    let net = w.rules.iter().filter(|r| r.is_net()).count();
    (net, w.rules.len() - net)
}
