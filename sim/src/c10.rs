//! C10 — loading corrupt or hostile serialized data fails cleanly and atomically.
//!
//! `SimDisk` sits between `serialize_raw` and `deserialize`. For every sampled buffer the
//! single-fault space is *enumerated*: every torn write (prefix), every single-bit flip, every
//! stale-tail cut against an older image, every structural marker substitution; plus sampled
//! zeroed / duplicated ranges, multi-byte corruption and free-form byte strings under each header
//! variant. The allocator seam is the resource oracle; worker processes make aborts observable.

use std::collections::BTreeSet;
use std::panic::{catch_unwind, AssertUnwindSafe};

use adblock::Engine;
use serde::{Deserialize, Serialize};

use crate::exec::*;
use crate::rng::{mix3, tag_of, Digest, Rng};
use crate::seams;
use crate::world::*;

pub const MAGIC: [u8; 4] = [0xd1, 0xd9, 0x3a, 0xaf];
pub const GZ: [u8; 10] = [31, 139, 8, 0, 0, 0, 0, 0, 0, 255];
pub const KINDS: &[&str] = &["torn_write", "bit_rot", "stale_tail", "lost_write", "marker_substitution", "string_substitution", "json_mutation", "value_substitution", "typed_hostile", "zeroed_range", "duplicated_range", "multi_byte", "freeform"];
pub const EXHAUSTIVE_KINDS: &[&str] = &["torn_write", "bit_rot", "stale_tail", "lost_write", "marker_substitution", "string_substitution", "json_mutation", "value_substitution"];
/// Whole-value replacements (the value, with everything nested in it, is cut out and one of these
/// single-byte msgpack values is put in its place): nil, false, 0, empty array, empty map, empty string.
pub const VALUE_SUBST: &[u8] = &[0xc0, 0xc2, 0x00, 0x90, 0x80, 0xa0];
/// Replacement contents for every stored string (well-formed msgpack, hostile or degenerate content).
pub const STRING_DICT: &[&str] = &[
    "", "a", "/", "//", "/a/", "*", "^", "|", "||", "{}", "[]", "null", "{\"selector\":[]}", "{\"selector\":[],\"action\":null}",
    "{\"selector\":[{\"type\":\"css-selector\",\"arg\":\"\"}]}", "+js()", ",", "a, b, c", "x:99999999999999999999", ":", "\u{e9}", "ex\u{e4}mple.com", "ab\u{e9}", "\u{0}", "(", "[a-", "(?P<", "\\",
    "aaaaaaaaaaaaaaaaaaaaaaaaaaaaaaaaaaaaaaaaaaaaaaaaaaaaaaaaaaaaaaaaaaaaaaaaaaaaaaaaaaaaaaaaaaaaaaaaaaaaaaaaaaaaaaaaaaaaaaaaaaaaaaaaaaaaaaaaaaaaaaaaaaaaaaaaaaaaaaaaaaaaaaaaaaaaaaaaaaaaaaaaaaaaaaaaaaaaaaaaaaaaaaaaaaaaaaaaaaaaaaaaaaaaaaaaaaaaaaaaaaaaaaaaaaaaaaaaaaaaaaaaaaaaaaaaaaaaaaaaaaaaaaaaaaaaaaaaaaaaaaaaaaaaaa",
];
pub const MARKERS: &[u8] = &[0xc0, 0xc2, 0xc3, 0xdb, 0xc6, 0xdd, 0xdf, 0xc9, 0xcf, 0xd3, 0xcb, 0x90, 0x80, 0xa0, 0xff, 0xc1, 0xda, 0xdc, 0xde, 0xc5];

pub fn buffer_profile() -> Profile {
    Profile {
        n_rules: (3, 26),
        n_probes: (10, 14),
        p_tag: 30,
        p_regexish: 40,
        cosmetic: true,
        removeparam: true,
        redirect: true,
        csp: true,
        badfilter: false,
        generichide: true,
        perms: true,
        tag_on_modifiers: false,
        extra: 0,
        tiny_patterns: true,
        non_ascii_urls: false,
        hostname_wildcards: true,
    }
}

/// Offsets (relative to the whole buffer) of every msgpack value marker in the payload.
pub fn structural_offsets(buf: &[u8]) -> Vec<usize> {
    let mut out = vec![];
    if buf.len() <= 5 {
        return out;
    }
    fn be(b: &[u8], p: usize, n: usize) -> Option<usize> {
        if p + n > b.len() {
            return None;
        }
        let mut v = 0usize;
        for i in 0..n {
            v = (v << 8) | b[p + i] as usize;
        }
        Some(v)
    }
    // iterative walk: stack of remaining item counts
    let b = buf;
    let mut p = 5usize;
    let mut pending: Vec<usize> = vec![1];
    while let Some(top) = pending.last_mut() {
        if *top == 0 {
            pending.pop();
            continue;
        }
        *top -= 1;
        if p >= b.len() {
            break;
        }
        out.push(p);
        let m = b[p];
        p += 1;
        let mut children = 0usize;
        match m {
            0x00..=0x7f | 0xe0..=0xff | 0xc0 | 0xc2 | 0xc3 | 0xc1 => {}
            0x80..=0x8f => children = 2 * (m & 0x0f) as usize,
            0x90..=0x9f => children = (m & 0x0f) as usize,
            0xa0..=0xbf => p += (m & 0x1f) as usize,
            0xc4 | 0xd9 => match be(b, p, 1) {
                Some(n) => p += 1 + n,
                None => break,
            },
            0xc5 | 0xda => match be(b, p, 2) {
                Some(n) => p += 2 + n,
                None => break,
            },
            0xc6 | 0xdb => match be(b, p, 4) {
                Some(n) => p = p.saturating_add(4).saturating_add(n),
                None => break,
            },
            0xc7 => match be(b, p, 1) {
                Some(n) => p += 2 + n,
                None => break,
            },
            0xc8 => match be(b, p, 2) {
                Some(n) => p += 3 + n,
                None => break,
            },
            0xc9 => match be(b, p, 4) {
                Some(n) => p = p.saturating_add(5).saturating_add(n),
                None => break,
            },
            0xca => p += 4,
            0xcb => p += 8,
            0xcc | 0xd0 => p += 1,
            0xcd | 0xd1 => p += 2,
            0xce | 0xd2 => p += 4,
            0xcf | 0xd3 => p += 8,
            0xd4 => p += 2,
            0xd5 => p += 3,
            0xd6 => p += 5,
            0xd7 => p += 9,
            0xd8 => p += 17,
            0xdc => match be(b, p, 2) {
                Some(n) => {
                    p += 2;
                    children = n
                }
                None => break,
            },
            0xdd => match be(b, p, 4) {
                Some(n) => {
                    p += 4;
                    children = n
                }
                None => break,
            },
            0xde => match be(b, p, 2) {
                Some(n) => {
                    p += 2;
                    children = 2 * n
                }
                None => break,
            },
            0xdf => match be(b, p, 4) {
                Some(n) => {
                    p += 4;
                    children = 2usize.saturating_mul(n)
                }
                None => break,
            },
        }
        if children > 0 {
            if children > b.len() {
                break;
            }
            pending.push(children);
        }
    }
    out
}

/// (start, end) of every msgpack value in the payload, nested values included.
pub fn value_extents(buf: &[u8]) -> Vec<(usize, usize)> {
    fn be(b: &[u8], p: usize, n: usize) -> Option<usize> {
        if p + n > b.len() {
            return None;
        }
        let mut v = 0usize;
        for i in 0..n {
            v = (v << 8) | b[p + i] as usize;
        }
        Some(v)
    }
    fn skip(b: &[u8], p: usize, depth: usize, out: &mut Vec<(usize, usize)>) -> Option<usize> {
        if p >= b.len() || depth > 64 {
            return None;
        }
        let m = b[p];
        let q = p + 1;
        let (mut end, children) = match m {
            0x00..=0x7f | 0xe0..=0xff | 0xc0 | 0xc1 | 0xc2 | 0xc3 => (q, 0usize),
            0x80..=0x8f => (q, 2 * (m & 0x0f) as usize),
            0x90..=0x9f => (q, (m & 0x0f) as usize),
            0xa0..=0xbf => (q + (m & 0x1f) as usize, 0),
            0xc4 | 0xd9 => (q + 1 + be(b, q, 1)?, 0),
            0xc5 | 0xda => (q + 2 + be(b, q, 2)?, 0),
            0xc6 | 0xdb => (q.checked_add(4)?.checked_add(be(b, q, 4)?)?, 0),
            0xc7 => (q + 2 + be(b, q, 1)?, 0),
            0xc8 => (q + 3 + be(b, q, 2)?, 0),
            0xc9 => (q.checked_add(5)?.checked_add(be(b, q, 4)?)?, 0),
            0xca => (q + 4, 0),
            0xcb => (q + 8, 0),
            0xcc | 0xd0 => (q + 1, 0),
            0xcd | 0xd1 => (q + 2, 0),
            0xce | 0xd2 => (q + 4, 0),
            0xcf | 0xd3 => (q + 8, 0),
            0xd4 => (q + 2, 0),
            0xd5 => (q + 3, 0),
            0xd6 => (q + 5, 0),
            0xd7 => (q + 9, 0),
            0xd8 => (q + 17, 0),
            0xdc => (q + 2, be(b, q, 2)?),
            0xdd => (q + 4, be(b, q, 4)?),
            0xde => (q + 2, 2 * be(b, q, 2)?),
            0xdf => (q + 4, 2usize.checked_mul(be(b, q, 4)?)?),
        };
        if children > b.len() {
            return None;
        }
        for _ in 0..children {
            end = skip(b, end, depth + 1, out)?;
        }
        if end > b.len() {
            return None;
        }
        out.push((p, end));
        Some(end)
    }
    let mut out = vec![];
    if buf.len() > 5 {
        let _ = skip(buf, 5, 0, &mut out);
    }
    out.sort();
    out
}

/// (offset, header length, content length) of every msgpack string value in the payload.
pub fn string_values(buf: &[u8], offsets: &[usize]) -> Vec<(usize, usize, usize)> {
    let mut out = vec![];
    for &o in offsets {
        let m = buf[o];
        let (h, l) = match m {
            0xa0..=0xbf => (1usize, (m & 0x1f) as usize),
            0xd9 if o + 1 < buf.len() => (2, buf[o + 1] as usize),
            0xda if o + 2 < buf.len() => (3, ((buf[o + 1] as usize) << 8) | buf[o + 2] as usize),
            _ => continue,
        };
        if o + h + l <= buf.len() {
            out.push((o, h, l));
        }
    }
    out
}

fn encode_str(s: &[u8]) -> Vec<u8> {
    let mut v = vec![];
    let n = s.len();
    if n < 32 {
        v.push(0xa0 | n as u8);
    } else if n < 256 {
        v.push(0xd9);
        v.push(n as u8);
    } else {
        v.push(0xda);
        v.push((n >> 8) as u8);
        v.push(n as u8);
    }
    v.extend_from_slice(s);
    v
}

fn splice_string(buf: &[u8], sv: (usize, usize, usize), new: &[u8]) -> Vec<u8> {
    let mut v = buf[..sv.0].to_vec();
    v.extend_from_slice(&encode_str(new));
    v.extend_from_slice(&buf[sv.0 + sv.1 + sv.2..]);
    v
}

/// Well-formed but degenerate variants of a JSON text: arrays emptied, keys removed, values replaced.
pub fn json_variants(text: &str) -> Vec<String> {
    let v: serde_json::Value = match serde_json::from_str(text) {
        Ok(v) => v,
        Err(_) => return vec![],
    };
    fn paths(v: &serde_json::Value, cur: &mut Vec<String>, out: &mut Vec<Vec<String>>) {
        out.push(cur.clone());
        match v {
            serde_json::Value::Object(m) => {
                for (k, x) in m {
                    cur.push(k.clone());
                    paths(x, cur, out);
                    cur.pop();
                }
            }
            serde_json::Value::Array(a) => {
                for (i, x) in a.iter().enumerate() {
                    cur.push(i.to_string());
                    paths(x, cur, out);
                    cur.pop();
                }
            }
            _ => {}
        }
    }
    fn set(v: &mut serde_json::Value, path: &[String], new: Option<serde_json::Value>) {
        if path.len() == 1 {
            match v {
                serde_json::Value::Object(m) => match new {
                    Some(n) => {
                        m.insert(path[0].clone(), n);
                    }
                    None => {
                        m.remove(&path[0]);
                    }
                },
                serde_json::Value::Array(a) => {
                    if let Ok(i) = path[0].parse::<usize>() {
                        if i < a.len() {
                            match new {
                                Some(n) => a[i] = n,
                                None => {
                                    a.remove(i);
                                }
                            }
                        }
                    }
                }
                _ => {}
            }
            return;
        }
        let next = match v {
            serde_json::Value::Object(m) => m.get_mut(&path[0]),
            serde_json::Value::Array(a) => path[0].parse::<usize>().ok().and_then(|i| a.get_mut(i)),
            _ => None,
        };
        if let Some(n) = next {
            set(n, &path[1..], new);
        }
    }
    let mut ps = vec![];
    paths(&v, &mut vec![], &mut ps);
    let mut out = vec![];
    use serde_json::json;
    for p in ps.iter().filter(|p| !p.is_empty()).take(12) {
        for new in [None, Some(json!(null)), Some(json!([])), Some(json!({})), Some(json!("")), Some(json!(0))] {
            let mut c = v.clone();
            set(&mut c, p, new);
            if let Ok(t) = serde_json::to_string(&c) {
                if t != text {
                    out.push(t);
                }
            }
        }
    }
    out.sort();
    out.dedup();
    out
}

/// The fault space of one (new image, old image) pair. `(kind, index)` identifies a case.
pub struct FaultSpace {
    pub a: Vec<u8>,
    pub b: Vec<u8>,
    pub offsets: Vec<usize>,
    pub strings: Vec<(usize, usize, usize)>,
    pub extents: Vec<(usize, usize)>,
    /// (index into `strings`, mutated JSON text)
    pub json_cases: Vec<(usize, String)>,
    pub seed: u64,
    pub n_sampled: u64,
}

impl FaultSpace {
    pub fn new(a: Vec<u8>, b: Vec<u8>, seed: u64, n_sampled: u64) -> Self {
        let offsets = structural_offsets(&a);
        let strings = string_values(&a, &offsets);
        let mut json_cases = vec![];
        for (i, sv) in strings.iter().enumerate() {
            let body = &a[sv.0 + sv.1..sv.0 + sv.1 + sv.2];
            if body.first() == Some(&b'{') {
                if let Ok(t) = std::str::from_utf8(body) {
                    for v in json_variants(t) {
                        json_cases.push((i, v));
                    }
                }
            }
        }
        let extents = value_extents(&a);
        FaultSpace { a, b, offsets, strings, extents, json_cases, seed, n_sampled }
    }
    pub fn count(&self, kind: &str) -> u64 {
        match kind {
            "torn_write" => self.a.len() as u64,
            "bit_rot" => 8 * self.a.len() as u64,
            "stale_tail" => self.a.len().min(self.b.len()).saturating_sub(1) as u64,
            "lost_write" => 1,
            "marker_substitution" => (self.offsets.len() * MARKERS.len()) as u64,
            "string_substitution" => (self.strings.len() * STRING_DICT.len()) as u64,
            "json_mutation" => self.json_cases.len() as u64,
            "value_substitution" => (self.extents.len() * VALUE_SUBST.len()) as u64,
            "zeroed_range" | "duplicated_range" | "multi_byte" => self.n_sampled,
            "typed_hostile" => self.n_sampled * 3,
            "freeform" => 24 + self.n_sampled / 4,
            _ => 0,
        }
    }
    pub fn case(&self, kind: &str, idx: u64) -> Vec<u8> {
        let a = &self.a;
        let i = idx as usize;
        let mut r = Rng::new(mix3(self.seed, tag_of(kind), idx));
        match kind {
            "torn_write" => a[..i].to_vec(),
            "bit_rot" => {
                let mut v = a.clone();
                v[i / 8] ^= 1 << (i % 8);
                v
            }
            "stale_tail" => {
                let cut = i + 1;
                let mut v = a[..cut].to_vec();
                v.extend_from_slice(&self.b[cut..]);
                v
            }
            "lost_write" => self.b.clone(),
            "marker_substitution" => {
                let off = self.offsets[i / MARKERS.len()];
                let mut v = a.clone();
                v[off] = MARKERS[i % MARKERS.len()];
                v
            }
            "string_substitution" => {
                let sv = self.strings[i / STRING_DICT.len()];
                splice_string(a, sv, STRING_DICT[i % STRING_DICT.len()].as_bytes())
            }
            "value_substitution" => {
                let (st, en) = self.extents[i / VALUE_SUBST.len()];
                let mut v = a[..st].to_vec();
                v.push(VALUE_SUBST[i % VALUE_SUBST.len()]);
                v.extend_from_slice(&a[en..]);
                v
            }
            "typed_hostile" => crate::c10gen::typed_hostile(self.seed, idx),
            "json_mutation" => {
                let (si, t) = &self.json_cases[i];
                splice_string(a, self.strings[*si], t.as_bytes())
            }
            "zeroed_range" => {
                let mut v = a.clone();
                let s = r.below(v.len());
                let l = 1 + r.below(32.min(v.len() - s));
                for x in &mut v[s..s + l] {
                    *x = 0;
                }
                v
            }
            "duplicated_range" => {
                let s = r.below(a.len());
                let l = 1 + r.below(48.min(a.len() - s));
                let mut v = a[..s + l].to_vec();
                v.extend_from_slice(&a[s..]);
                if r.chance(50) {
                    v.truncate(a.len());
                }
                v
            }
            "multi_byte" => {
                let mut v = a.clone();
                let n = 1 + r.below(4);
                for _ in 0..n {
                    let p = r.below(v.len());
                    v[p] = match r.below(4) {
                        0 => 0xff,
                        1 => *r.pick(MARKERS),
                        _ => r.next() as u8,
                    };
                }
                v
            }
            _ => {
                // free-form strings under each header variant
                let garbage = |r: &mut Rng, n: usize| -> Vec<u8> { (0..n).map(|_| r.next() as u8).collect() };
                match i {
                    0 => vec![],
                    1 => vec![0xd1],
                    2 => MAGIC[..2].to_vec(),
                    3 => MAGIC[..3].to_vec(),
                    4 => MAGIC.to_vec(),
                    5 => [&MAGIC[..], &[0u8]].concat(),
                    6 => [&MAGIC[..], &[1u8]].concat(),
                    7 => [&MAGIC[..], &[255u8]].concat(),
                    8 => [&MAGIC[..], &[1u8], &a[5.min(a.len())..]].concat(),
                    9 => GZ.to_vec(),
                    10 => GZ[..5].to_vec(),
                    11 => [&GZ[..], &garbage(&mut r, 40)].concat(),
                    12 => [&MAGIC[..], &[0u8, 0xdc, 0xff, 0xff]].concat(),
                    13 => [&MAGIC[..], &[0u8, 0xdd, 0xff, 0xff, 0xff, 0xff]].concat(),
                    14 => [&MAGIC[..], &[0u8, 0xdb, 0xff, 0xff, 0xff, 0xff]].concat(),
                    15 => [&MAGIC[..], &[0u8, 0xc6, 0x7f, 0xff, 0xff, 0xff]].concat(),
                    16 => [&MAGIC[..], &[0u8, 0xdf, 0x00, 0xff, 0xff, 0xff]].concat(),
                    17 => [&MAGIC[..], &[0u8], &vec![0x91u8; 4000][..]].concat(),
                    18 => [&MAGIC[..], &[0u8], &vec![0x81u8; 4000][..]].concat(),
                    19 => [&MAGIC[..], &[0u8, 0xdc, 0x00, 0x15], &vec![0xc0u8; 21][..]].concat(),
                    20 => [&MAGIC[..], &[0u8, 0xdc, 0x00, 0x15], &vec![0x90u8; 21][..]].concat(),
                    21 => [&MAGIC[..], &[0u8, 0xdc, 0x00, 0x15], &vec![0x80u8; 21][..]].concat(),
                    22 => a.iter().rev().cloned().collect(),
                    23 => [&a[..], &a[..]].concat(),
                    _ => {
                        let n = r.below(64);
                        match r.below(3) {
                            0 => garbage(&mut r, n),
                            1 => [&MAGIC[..], &[0u8], &garbage(&mut r, n)].concat(),
                            _ => [&MAGIC[..], &garbage(&mut r, n)].concat(),
                        }
                    }
                }
            }
        }
    }
}

#[derive(Clone, Debug, Serialize, Deserialize)]
pub struct C10Replay {
    pub property: String,
    pub seed: u64,
    pub kind: String,
    pub index: u64,
    /// the engine that receives the bytes
    pub target: World,
    pub target_tags: Vec<String>,
    pub bytes_hex: String,
    /// "" | "repeat" | "probe": what follows the faulty load in this case
    #[serde(default)]
    pub followup: String,
    #[serde(default)]
    pub image_hex: String,
    #[serde(default)]
    pub image_world: Option<World>,
    #[serde(default)]
    pub alt_tags: Vec<String>,
    /// faulty loads that preceded this case since the target was last rebuilt (oldest first)
    #[serde(default)]
    pub pre_hex: Vec<String>,
    #[serde(default)]
    pub violation: Option<Violation>,
    #[serde(default)]
    pub note: String,
}

pub fn hex(b: &[u8]) -> String {
    let mut s = String::with_capacity(b.len() * 2);
    for x in b {
        s.push_str(&format!("{:02x}", x));
    }
    s
}
pub fn unhex(s: &str) -> Vec<u8> {
    (0..s.len() / 2).map(|i| u8::from_str_radix(&s[2 * i..2 * i + 2], 16).unwrap_or(0)).collect()
}

/// The engine under test plus the snapshot S0 against which atomicity is judged.
pub struct Target {
    pub w: World,
    pub tags: Vec<String>,
    pub engine: Engine,
    pub reqs: Reqs,
    pub s0_bytes: Vec<u8>,
    pub s0_answers: u64,
    pub s0_tags: Vec<bool>,
}

fn full_answers(e: &Engine, w: &World, reqs: &Reqs, light: bool) -> u64 {
    let s = SutRef(e);
    let mut d = Digest::new();
    for (i, rq) in reqs.reqs.iter().enumerate() {
        if light && i >= 12 {
            break;
        }
        if let Some(rq) = rq {
            d.str(&NetAns::of(&e.check_network_request(rq)).show());
            d.str(&format!("{:?}", canon_csp(e.get_csp_directives(rq))));
            if !light {
                d.str(&NetAns::of(&e.check_network_request_subset(rq, true, true)).show());
                d.str(&NetAns::of(&e.check_network_request_subset(rq, false, true)).show());
            }
        }
    }
    if !light {
        // every host with exactly one letter upper-cased (a stored hostname that lost its lower-case
        // normalisation to a flipped bit is only reached by a URL spelled the same way)
        for h in HOSTS.iter() {
            for (ci, c) in h.char_indices() {
                if c.is_ascii_lowercase() {
                    let mut v = h.to_string();
                    v.replace_range(ci..ci + 1, &c.to_ascii_uppercase().to_string());
                    for path in ["/ad1.js", "/ads/x/banner"] {
                        if let Ok(rq) = adblock::request::Request::new(&format!("https://{}{}", v, path), "https://foo.org/", "script") {
                            d.str(&NetAns::of(&e.check_network_request(&rq)).show());
                        }
                    }
                }
            }
        }
    }
    for (pi, p) in w.pages.iter().enumerate() {
        if light && pi >= 1 {
            break;
        }
        d.str(&format!("{:?}", s.cosmetic(p)));
        for c in &w.classids {
            d.str(&format!("{:?}", s.classid(c, p)));
        }
    }
    d.0
}

struct SutRef<'a>(&'a Engine);
impl<'a> SutRef<'a> {
    fn cosmetic(&self, url: &str) -> (Vec<String>, Vec<String>, Vec<String>, Vec<String>, bool) {
        let r = self.0.url_cosmetic_resources(url);
        let srt = |h: &std::collections::HashSet<String>| {
            let mut v: Vec<String> = h.iter().cloned().collect();
            v.sort();
            v
        };
        (srt(&r.hide_selectors), srt(&r.procedural_actions), srt(&r.exceptions), canon_script(&r.injected_script), r.generichide)
    }
    fn classid(&self, ci: &ClassIds, page: &str) -> Vec<String> {
        let exc = self.0.url_cosmetic_resources(page).exceptions;
        let mut v = self.0.hidden_class_id_selectors(ci.classes.iter(), ci.ids.iter(), &exc);
        v.sort();
        v
    }
}

impl Target {
    pub fn build(w: &World, tags: &[String]) -> Target {
        let s = Sut::build(&w.rules, &w.resources, w.knobs.optimize, w.knobs.debug, 0, false, None);
        let mut engine = match s {
            Sut::Engine(e) => *e,
            _ => unreachable!(),
        };
        let tv: Vec<&str> = tags.iter().map(|s| s.as_str()).collect();
        engine.use_tags(&tv);
        let reqs = Reqs::new(w);
        let s0_bytes = engine.serialize_raw().expect("serialize target");
        let s0_answers = full_answers(&engine, w, &reqs, false);
        let s0_tags = w.tags.iter().map(|t| engine.tag_exists(t)).collect();
        Target { w: w.clone(), tags: tags.to_vec(), engine, reqs, s0_bytes, s0_answers, s0_tags }
    }
}

#[derive(Default, Clone, Debug, Serialize, Deserialize)]
pub struct C10Stats {
    pub cases: u64,
    pub load_err: u64,
    pub load_ok: u64,
    pub load_ok_on_damaged: u64,
    pub max_request: u64,
    pub max_peak: u64,
    pub rebuilds: u64,
    #[serde(default)]
    pub last_err: bool,
    pub per_kind: std::collections::BTreeMap<String, u64>,
}

fn viol(oracle: &str, what: String, got: String, want: String) -> Violation {
    Violation { property: "C10".into(), oracle: oracle.into(), step: 0, op: "deserialize".into(), what, got, want }
}

/// Resource oracle bounds (DESIGN section 4, C10 step 4).
pub fn bounds(len: usize) -> (usize, isize) {
    (std::cmp::max(8 << 20, 256 * len), (16 << 20) + 512 * len as isize)
}

/// Runs one case against the target. On `Ok` loads the target is restored afterwards.
pub fn run_case(t: &mut Target, kind: &str, bytes: &[u8], pristine: bool, st: &mut C10Stats) -> Option<Violation> {
    st.cases += 1;
    *st.per_kind.entry(kind.to_string()).or_insert(0) += 1;
    let label = |s: &str| format!("{} [{} len={}]", s, kind, bytes.len());
    let eng = &mut t.engine;
    let (res, acct) = seams::account(|| catch_unwind(AssertUnwindSafe(|| eng.deserialize(bytes))));
    st.max_request = st.max_request.max(acct.max_request as u64);
    st.max_peak = st.max_peak.max(acct.peak_live.max(0) as u64);
    let (max_req, max_peak) = bounds(bytes.len());
    let res = match res {
        Err(_) => {
            let v = viol("no-panic", label("panic in deserialize"), last_panic(), "Ok or Err".into());
            *t = Target::build(&t.w.clone(), &t.tags.clone());
            st.rebuilds += 1;
            return Some(v);
        }
        Ok(r) => r,
    };
    if acct.max_request > max_req || acct.peak_live > max_peak {
        let v = viol(
            "bounded-allocation",
            label("alloc during deserialize"),
            format!("largest request {} bytes, peak live {} bytes", acct.max_request, acct.peak_live),
            format!("largest request <= {} and peak <= {}", max_req, max_peak),
        );
        *t = Target::build(&t.w.clone(), &t.tags.clone());
        st.rebuilds += 1;
        return Some(v);
    }
    st.last_err = res.is_err();
    match res {
        Err(_) => {
            st.load_err += 1;
            // atomicity: the engine behaves exactly as before
            let now = catch_unwind(AssertUnwindSafe(|| {
                let b = t.engine.serialize_raw().ok();
                let a = full_answers(&t.engine, &t.w, &t.reqs, st.cases % 16 != 0);
                let tg: Vec<bool> = t.w.tags.iter().map(|x| t.engine.tag_exists(x)).collect();
                (b, a, tg)
            }));
            let light = st.cases % 16 != 0;
            match now {
                Err(_) => {
                    let v = viol("atomic-on-error", label("panic after failed load"), last_panic(), "engine unchanged".into());
                    *t = Target::build(&t.w.clone(), &t.tags.clone());
                    st.rebuilds += 1;
                    Some(v)
                }
                Ok((b, a, tg)) => {
                    let want_a = if light { full_answers_light_of(t) } else { t.s0_answers };
                    if b.as_deref() != Some(&t.s0_bytes[..]) || tg != t.s0_tags || a != want_a {
                        let v = viol(
                            "atomic-on-error",
                            label("state after failed load"),
                            format!("bytes_equal={} tags_equal={} answers_equal={}", b.as_deref() == Some(&t.s0_bytes[..]), tg == t.s0_tags, a == want_a),
                            "engine state identical to the state before the call".into(),
                        );
                        *t = Target::build(&t.w.clone(), &t.tags.clone());
                        st.rebuilds += 1;
                        return Some(v);
                    }
                    None
                }
            }
        }
        Ok(()) => {
            st.load_ok += 1;
            *st.per_kind.entry(format!("{}_loaded_ok", kind)).or_insert(0) += 1;
            if !pristine {
                st.load_ok_on_damaged += 1;
            }
            // total afterwards: every query kind, a tag switch, re-serialization
            let after = catch_unwind(AssertUnwindSafe(|| {
                let _ = full_answers(&t.engine, &t.w, &t.reqs, false);
                // time passes: the periodic clean-up of compiled regexes runs over whatever was loaded
                // (entries that compiled and entries that did not), and the rules are used again
                adblock::verif_hooks::clock_advance_ns(181_000_000_000);
                let _ = full_answers(&t.engine, &t.w, &t.reqs, true);
                adblock::verif_hooks::clock_advance_ns(31_000_000_000);
                let _ = full_answers(&t.engine, &t.w, &t.reqs, true);
                let tv: Vec<&str> = t.w.tags.iter().map(|s| s.as_str()).collect();
                t.engine.use_tags(&tv);
                let _ = full_answers(&t.engine, &t.w, &t.reqs, true);
                t.engine.use_tags(&[]);
                let _ = full_answers(&t.engine, &t.w, &t.reqs, true);
                let (s, acct2) = seams::account(|| t.engine.serialize_raw());
                (s.is_ok(), acct2)
            }));
            let v = match after {
                Err(_) => Some(viol("total-after-ok", label("panic after successful load"), last_panic(), "queries, tag switch and serialize_raw complete".into())),
                Ok((false, _)) => Some(viol("total-after-ok", label("serialize_raw after successful load"), "Err".into(), "Ok".into())),
                Ok((true, _)) => None,
            };
            // restore the target for the next case
            *t = Target::build(&t.w.clone(), &t.tags.clone());
            st.rebuilds += 1;
            v
        }
    }
}

fn full_answers_light_of(t: &Target) -> u64 {
    // the light digest of the pristine state, computed lazily once per target
    thread_local! { static CACHE: std::cell::RefCell<(u64, u64)> = const { std::cell::RefCell::new((0, 0)) }; }
    let key = t.s0_answers;
    let cached = CACHE.with(|c| {
        let c = c.borrow();
        if c.0 == key {
            Some(c.1)
        } else {
            None
        }
    });
    if let Some(v) = cached {
        return v;
    }
    // a pristine twin gives the light digest of S0
    let twin = Target::build(&t.w, &t.tags);
    let v = full_answers(&twin.engine, &twin.w, &twin.reqs, true);
    CACHE.with(|c| *c.borrow_mut() = (key, v));
    v
}

pub struct BufferSet {
    pub seed: u64,
    pub space: FaultSpace,
    pub target_world: World,
    pub target_tags: Vec<String>,
    /// the world the pristine (new) image was serialized from
    pub world_a: World,
}

/// What an engine that successfully loaded the pristine image A must answer (under `tags`, with the
/// target's resources and probe set): the answers of an engine built from A's rule list.
pub fn reference_answers(bs: &BufferSet, tags: &[String]) -> u64 {
    let wa = &bs.world_a;
    let s = Sut::build(&wa.rules, &bs.target_world.resources, wa.knobs.optimize, wa.knobs.debug, 0, false, None);
    let mut e = match s {
        Sut::Engine(e) => *e,
        _ => unreachable!(),
    };
    let tv: Vec<&str> = tags.iter().map(|s| s.as_str()).collect();
    e.use_tags(&tv);
    let reqs = Reqs::new(&bs.target_world);
    full_answers(&e, &bs.target_world, &reqs, false)
}

/// A fault-free load right after faulty ones: the pristine image must load and the engine must then
/// behave like the engine the image was taken from, whatever failed or succeeded before. The caller's
/// tags are switched first, so state smuggled from an earlier load shows.
pub fn probe_load(t: &mut Target, bs: &BufferSet, alt_tags: &[String], want: u64, st: &mut C10Stats) -> Option<Violation> {
    *st.per_kind.entry("fault_free_load_after_faults".to_string()).or_insert(0) += 1;
    let r = catch_unwind(AssertUnwindSafe(|| {
        let tv: Vec<&str> = alt_tags.iter().map(|s| s.as_str()).collect();
        t.engine.use_tags(&tv);
        let r = t.engine.deserialize(&bs.space.a);
        let tags_ok = t.w.tags.iter().all(|x| t.engine.tag_exists(x) == alt_tags.contains(x));
        (r.is_ok(), tags_ok, full_answers(&t.engine, &t.w, &t.reqs, false))
    }));
    let v = match r {
        Err(_) => Some(viol("no-panic", "panic in fault-free load after faulty loads".into(), last_panic(), "Ok".into())),
        Ok((false, _, _)) => Some(viol("valid-load-after-faults", "deserialize pristine buffer after faulty loads".into(), "Err".into(), "Ok".into())),
        Ok((true, false, _)) => Some(viol("valid-load-after-faults", "tags after pristine load following faulty loads".into(), "enabled tag set changed".into(), "the caller's enabled set".into())),
        Ok((true, true, got)) => {
            if got != want {
                Some(viol("valid-load-after-faults", "answers after pristine load following faulty loads".into(), format!("digest {:x}", got), format!("digest {:x} (engine built from the rule list of the image)", want)))
            } else {
                None
            }
        }
    };
    *t = Target::build(&t.w.clone(), &t.tags.clone());
    st.rebuilds += 1;
    v
}

/// The same bytes offered twice in a row must give the same outcome (Err again).
pub fn repeat_load(t: &mut Target, bytes: &[u8], st: &mut C10Stats) -> Option<Violation> {
    *st.per_kind.entry("repeated_faulty_load".to_string()).or_insert(0) += 1;
    // (the target was rebuilt if the first load succeeded, so this is again the first offer then)
    let r = catch_unwind(AssertUnwindSafe(|| (t.engine.deserialize(bytes).is_err(), t.engine.deserialize(bytes).is_err())));
    if !st.last_err {
        // the first offer succeeded (and the target was rebuilt since): nothing to compare
        if let Ok((false, _)) = r {
            *t = Target::build(&t.w.clone(), &t.tags.clone());
            st.rebuilds += 1;
        }
        return None;
    }
    // an Err must stay an Err however often the same bytes are offered
    let r = r.map(|(a, b)| (true, a && b));
    match r {
        Err(_) => {
            *t = Target::build(&t.w.clone(), &t.tags.clone());
            st.rebuilds += 1;
            Some(viol("no-panic", "panic in repeated load".into(), last_panic(), "same outcome".into()))
        }
        Ok((a, b)) if a != b => {
            *t = Target::build(&t.w.clone(), &t.tags.clone());
            st.rebuilds += 1;
            Some(viol("atomic-on-error", format!("repeat same bytes twice [len={}]", bytes.len()), format!("first is_err={} second is_err={}", a, b), "the same outcome both times".into()))
        }
        Ok(_) => None,
    }
}

/// Buffer `bi` of a batch: new image A, old image B and the (non-empty) target engine's world.
pub fn buffer_set(base: u64, bi: u64, n_sampled: u64) -> BufferSet {
    let seed = mix3(base, tag_of("C10"), bi);
    let p = buffer_profile();
    // (the rare very long lists of the world generator are for the history checks: an image of 4 000
    // rules cannot be enumerated fault by fault inside a worker's deadline)
    let small = |mut sd: u64| -> World {
        loop {
            let w = gen_world(sd, &p);
            if w.rules.len() <= 400 {
                return w;
            }
            sd = mix3(sd, 0x5a11, 1);
        }
    };
    let wa = small(seed);
    let wb = small(seed ^ 0xb);
    let mut wt = small(seed ^ 0x7a);
    // resource-store observers: one redirect rule and one request per resource name, loaded or not, so
    // that the answers of the target engine show which names its resource store resolves
    for (i, name) in ["missing.js", "smuggled.js", "noop.js", "1x1.gif", "noop.txt", "blank"].iter().enumerate() {
        wt.rules.push(Rule { spec: RuleSpec::Net(NetRule { exc: false, pat: format!("||sentinel.test/r{}^", i), opts: vec![format!("redirect={}", name)], tag: None }), perm: 0 });
        // (in front: the light comparison after every single case covers the first 12 probes)
        wt.probes.insert(0, Probe { url: format!("https://sentinel.test/r{}", i), source: "https://example.com/".into(), rtype: "script".into() });
    }
    let bytes_of = |w: &World| -> Vec<u8> {
        match Sut::build(&w.rules, &[], w.knobs.optimize, w.knobs.debug, 0, false, None) {
            Sut::Engine(e) => e.serialize_raw().expect("serialize"),
            _ => unreachable!(),
        }
    };
    let a = bytes_of(&wa);
    let b = bytes_of(&wb);
    let mut r = Rng::stream(seed, "c10");
    let tags: Vec<String> = wt.tags.iter().filter(|_| r.chance(50)).cloned().collect();
    BufferSet { seed, space: FaultSpace::new(a, b, seed, n_sampled), target_world: wt, target_tags: tags, world_a: wa }
}

pub fn replay_of(bs: &BufferSet, kind: &str, index: u64, bytes: &[u8], v: Option<Violation>) -> C10Replay {
    C10Replay {
        property: "C10".into(),
        seed: bs.seed,
        kind: kind.into(),
        index,
        target: bs.target_world.clone(),
        target_tags: bs.target_tags.clone(),
        bytes_hex: hex(bytes),
        followup: String::new(),
        image_hex: String::new(),
        image_world: None,
        alt_tags: vec![],
        pre_hex: vec![],
        violation: v,
        note: String::new(),
    }
}

/// Executes a replay file's single case in this process, on a fresh thread.
pub fn execute_replay(rp: &C10Replay) -> Option<Violation> {
    let rp2 = rp.clone();
    seams::hashkey_set(rp.target.knobs.hash_key);
    let h = std::thread::Builder::new()
        .stack_size(32 << 20)
        .spawn(move || {
            set_quiet(true);
            adblock::verif_hooks::reset();
            let mut t = Target::build(&rp2.target, &rp2.target_tags);
            let mut st = C10Stats::default();
            let bytes = unhex(&rp2.bytes_hex);
            for pre in &rp2.pre_hex {
                let _ = run_case(&mut t, "preceding", &unhex(pre), false, &mut st);
            }
            let mut v = run_case(&mut t, &rp2.kind, &bytes, false, &mut st);
            if v.is_none() && !rp2.followup.is_empty() {
                v = repeat_load(&mut t, &bytes, &mut st);
                if v.is_none() && rp2.followup == "probe" {
                    if let Some(wa) = &rp2.image_world {
                        let bs = BufferSet {
                            seed: rp2.seed,
                            space: FaultSpace::new(unhex(&rp2.image_hex), vec![], rp2.seed, 0),
                            target_world: rp2.target.clone(),
                            target_tags: rp2.target_tags.clone(),
                            world_a: wa.clone(),
                        };
                        let want = reference_answers(&bs, &rp2.alt_tags);
                        v = probe_load(&mut t, &bs, &rp2.alt_tags, want, &mut st);
                    }
                }
            }
            v
        })
        .expect("spawn");
    match h.join() {
        Ok(v) => v,
        Err(_) => Some(viol("no-panic", "panic on run thread".into(), "panic".into(), "no panic".into())),
    }
}

/// Shrinks the corrupt byte string itself (drop tail, zero bytes back to the pristine value is not
/// possible without the original, so: truncate and simplify the target) while the class persists.
pub fn minimize_replay(rp: &C10Replay, v0: &Violation) -> C10Replay {
    let class = v0.class();
    let mut best = rp.clone();
    let same = |c: &C10Replay| -> Option<Violation> {
        match execute_replay(c) {
            Some(v) if v.class() == class => Some(v),
            _ => None,
        }
    };
    // simplify the target engine first: fewer rules
    let mut chunk = (best.target.rules.len() / 2).max(1);
    loop {
        let mut i = 0;
        while i < best.target.rules.len() {
            let mut c = best.clone();
            let end = (i + chunk).min(c.target.rules.len());
            c.target.rules.drain(i..end);
            if let Some(v) = same(&c) {
                c.violation = Some(v);
                best = c;
            } else {
                i += chunk;
            }
        }
        if chunk == 1 {
            break;
        }
        chunk /= 2;
    }
    // then the byte string: cut the tail as far as possible
    let mut bytes = unhex(&best.bytes_hex);
    let mut step = bytes.len() / 2;
    while step >= 1 {
        while bytes.len() > step {
            let mut c = best.clone();
            let nb = bytes[..bytes.len() - step].to_vec();
            c.bytes_hex = hex(&nb);
            if let Some(v) = same(&c) {
                c.violation = Some(v);
                best = c;
                bytes = nb;
            } else {
                break;
            }
        }
        step /= 2;
    }
    best
}

pub fn distinct_key(kind: &str, bytes: &[u8]) -> u64 {
    let mut d = Digest::new();
    d.str(kind);
    d.bytes(bytes);
    d.0
}

pub type Seen = BTreeSet<u64>;
