//! Histories, the system under test, the oracles and the canonical comparison.
//!
//! The system under test and every oracle are the real adblock crate; nothing is re-implemented.

use std::collections::{BTreeSet, HashSet};
use std::panic::{catch_unwind, AssertUnwindSafe};
use std::time::Duration;

use adblock::blocker::{Blocker, BlockerOptions, BlockerResult};
use adblock::filters::network::NetworkFilter;
use adblock::lists::{FilterSet, ParseOptions};
use adblock::regex_manager::RegexManagerDiscardPolicy;
use adblock::request::Request;
use adblock::resources::{MimeType, PermissionMask, Resource, ResourceStorage, ResourceType};
use adblock::verif_hooks as vh;
use adblock::Engine;
use serde::{Deserialize, Serialize};

use crate::rng::{Digest, Rng};
use crate::seams;
use crate::world::*;

// -------------------------------------------------------------------------------------------
// Operations
// -------------------------------------------------------------------------------------------

#[derive(Clone, Debug, Serialize, Deserialize, PartialEq)]
pub enum Op {
    Check(usize),
    CheckSubset(usize, bool, bool),
    Csp(usize),
    Cosmetic(usize),
    ClassId(usize, usize),
    UseTags(Vec<String>),
    EnableTags(Vec<String>),
    DisableTags(Vec<String>),
    TagExists(String),
    SetPolicy(u64, u64),
    Advance(u64),
    DiscardRegex(usize),
    DebugInfo,
    Serialize(usize),
    Deserialize(usize),
    Restart,
    UseResources(Vec<usize>),
    AddResource(usize),
    AddFilter(usize),
    Optimize,
    ProbeAll,
    /// the next state-changing operation runs on a helper thread (the engine is `Send`); queries
    /// continue on the run thread afterwards
    OnOtherThread,
    /// a load that must fail (fault kind: 0 empty, 1 truncated to k/8, 2 wrong version byte, 3 foreign
    /// header, 4 header only): the engine must go on exactly as before
    LoadFaulty(usize, u8, u8),
    /// the same operation many times in a row, with counts around 2^8 and 2^16: 0 = alternate between
    /// two tag sets (`use_tags`), 1 = the most recent query again and again, 2 = `enable_tags` of the same set
    Burst(u8, u32, Vec<String>, Vec<String>),
}

impl Op {
    pub fn kind(&self) -> &'static str {
        match self {
            Op::Check(_) => "check",
            Op::CheckSubset(..) => "check_subset",
            Op::Csp(_) => "csp",
            Op::Cosmetic(_) => "cosmetic",
            Op::ClassId(..) => "classid",
            Op::UseTags(_) => "use_tags",
            Op::EnableTags(_) => "enable_tags",
            Op::DisableTags(_) => "disable_tags",
            Op::TagExists(_) => "tag_exists",
            Op::SetPolicy(..) => "set_policy",
            Op::Advance(_) => "advance",
            Op::DiscardRegex(_) => "discard_regex",
            Op::DebugInfo => "debug_info",
            Op::Serialize(_) => "serialize",
            Op::Deserialize(_) => "deserialize",
            Op::Restart => "restart",
            Op::UseResources(_) => "use_resources",
            Op::AddResource(_) => "add_resource",
            Op::AddFilter(_) => "add_filter",
            Op::Optimize => "optimize",
            Op::ProbeAll => "probe_all",
            Op::OnOtherThread => "on_other_thread",
            Op::LoadFaulty(..) => "load_faulty",
            Op::Burst(..) => "burst",
        }
    }
    pub fn mutating(&self) -> bool {
        !matches!(
            self,
            Op::Check(_) | Op::CheckSubset(..) | Op::Csp(_) | Op::Cosmetic(_) | Op::ClassId(..) | Op::TagExists(_) | Op::DebugInfo | Op::ProbeAll | Op::OnOtherThread
        )
    }
}

/// Per-property operation mix.
#[derive(Clone, Debug)]
pub struct OpMix {
    pub n_ops: (usize, usize),
    pub blocker_driver: bool,
    pub tags: u32,
    pub clock: u32,
    pub evict: u32,
    pub serial: u32,
    pub restart: u32,
    pub resources: u32,
    pub add_filter: u32,
    pub optimize: u32,
    pub queries: u32,
}

pub const SEC: u64 = 1_000_000_000;

pub fn gen_ops(seed: u64, w: &World, mix: &OpMix) -> Vec<Op> {
    let mut r = Rng::stream(seed, "ops");
    let n = r.range(mix.n_ops.0, mix.n_ops.1);
    let mut ops = Vec::with_capacity(n);
    let weights: [(u32, u8); 9] = [
        (mix.tags, 0),
        (mix.clock, 1),
        (mix.evict, 2),
        (mix.serial, 3),
        (mix.restart, 4),
        (mix.resources, 5),
        (mix.add_filter, 6),
        (mix.optimize, 7),
        (mix.queries, 8),
    ];
    let total: u32 = weights.iter().map(|w| w.0).sum();
    let subset = |r: &mut Rng| -> Vec<String> {
        let mut v = vec![];
        for t in &w.tags {
            if r.chance(45) {
                v.push(t.clone());
            }
        }
        if r.chance(10) {
            v.push("unknown".to_string());
        }
        if r.chance(6) {
            v.push(String::new());
        }
        if r.chance(10) && !v.is_empty() {
            v.push(v[0].clone());
        }
        v
    };
    let mut added: HashSet<usize> = HashSet::new();
    for _ in 0..n {
        let mut x = r.below(total as usize) as u32;
        let mut k = 8u8;
        for (wt, id) in weights.iter() {
            if x < *wt {
                k = *id;
                break;
            }
            x -= *wt;
        }
        let op = match k {
            0 if r.chance(3) => {
                let n = match r.below(40) {
                    0..=25 => r.range(2, 6) as u32,
                    26..=37 => 255 + r.below(3) as u32,
                    _ => 65_535 + r.below(3) as u32,
                };
                Op::Burst(*r.pick(&[0u8, 0, 1, 2]), n, subset(&mut r), subset(&mut r))
            }
            0 => match r.below(10) {
                0..=3 => Op::UseTags(subset(&mut r)),
                4..=6 => Op::EnableTags(subset(&mut r)),
                7..=8 => Op::DisableTags(subset(&mut r)),
                _ => Op::TagExists(if r.chance(80) { r.pick(&w.tags).clone() } else { "unknown".into() }),
            },
            1 => {
                if r.chance(30) {
                    let iv = *r.pick(&[0u64, 1, SEC, 30 * SEC, 180 * SEC, 31_536_000 * SEC]);
                    let un = *r.pick(&[0u64, 1, SEC, 30 * SEC, 180 * SEC, 31_536_000 * SEC]);
                    Op::SetPolicy(iv, un)
                } else {
                    // biased to just below / at / above the thresholds
                    let base = *r.pick(&[1u64, SEC, 30 * SEC, 180 * SEC, 31_536_000 * SEC]);
                    let dt = match r.below(4) {
                        0 => base.saturating_sub(1),
                        1 => base,
                        2 => base + 1,
                        _ => base.saturating_mul(3),
                    };
                    Op::Advance(dt)
                }
            }
            2 => {
                if r.chance(75) {
                    Op::DiscardRegex(r.below(64))
                } else {
                    Op::DebugInfo
                }
            }
            3 => {
                let slot = r.below(3);
                if r.chance(12) {
                    Op::LoadFaulty(slot, r.below(5) as u8, r.range(0, 7) as u8)
                } else if r.chance(50) {
                    Op::Serialize(slot)
                } else {
                    Op::Deserialize(match r.below(20) {
                        0..=2 => 3,
                        3..=5 => 4,
                        _ => slot,
                    })
                }
            }
            4 => Op::Restart,
            5 => {
                if r.chance(50) {
                    let mut v = vec![];
                    // (sometimes the empty list: set assignment must then unload everything)
                    let keep = if r.chance(8) { 0 } else { 70 };
                    for i in 0..w.resources.len() {
                        if r.chance(keep) {
                            v.push(i);
                        }
                    }
                    r.shuffle(&mut v);
                    Op::UseResources(v)
                } else {
                    Op::AddResource(r.below(w.resources.len()))
                }
            }
            6 => {
                if w.extra.is_empty() {
                    Op::ProbeAll
                } else {
                    let i = r.below(w.extra.len());
                    added.insert(i);
                    Op::AddFilter(i)
                }
            }
            7 => Op::Optimize,
            _ => match r.below(10) {
                0..=4 => Op::Check(r.below(w.probes.len())),
                5 => Op::CheckSubset(r.below(w.probes.len()), r.chance(50), r.chance(50)),
                6 => Op::Csp(r.below(w.probes.len())),
                7 => Op::Cosmetic(r.below(w.pages.len())),
                8 => Op::ClassId(r.below(w.classids.len()), r.below(w.pages.len())),
                _ => Op::ProbeAll,
            },
        };
        if op.mutating() && !matches!(op, Op::Advance(_) | Op::SetPolicy(..)) && r.chance(12) {
            ops.push(Op::OnOtherThread);
        }
        ops.push(op);
    }
    ops
}

// -------------------------------------------------------------------------------------------
// Canonical answers
// -------------------------------------------------------------------------------------------

/// What a network check answers, minus what the properties declare unobservable (the debug text
/// naming *which* rule matched).
#[derive(Clone, Debug, PartialEq, Eq, Serialize, Deserialize)]
pub struct NetAns {
    pub matched: bool,
    pub important: bool,
    pub exception: bool,
    pub redirect: Option<String>,
    pub rewritten: Option<String>,
}

impl NetAns {
    pub fn of(r: &BlockerResult) -> NetAns {
        NetAns {
            matched: r.matched,
            important: r.important,
            exception: r.exception.is_some(),
            redirect: r.redirect.clone(),
            rewritten: r.rewritten_url.clone(),
        }
    }
    pub fn is_default(&self) -> bool {
        !self.matched && !self.important && !self.exception && self.redirect.is_none() && self.rewritten.is_none()
    }
    pub fn show(&self) -> String {
        format!(
            "matched={} important={} exception={} redirect={:?} rewritten={:?}",
            self.matched, self.important, self.exception, self.redirect, self.rewritten
        )
    }
}

pub fn canon_csp(c: Option<String>) -> Option<Vec<String>> {
    c.map(|s| {
        let mut v: Vec<String> = s.split(',').map(|x| x.to_string()).collect();
        v.sort();
        v.dedup();
        v
    })
}

/// `injected_script` is a sequence of dependency lines followed by `try { .. } catch` blocks whose
/// relative order comes from hash iteration ("no ordering is guaranteed"): compare as multisets.
pub fn canon_script(s: &str) -> Vec<String> {
    let mut units: Vec<String> = vec![];
    let lines: Vec<&str> = s.split('\n').collect();
    let mut i = 0;
    while i < lines.len() {
        if lines[i] == "try {" {
            let mut j = i + 1;
            let mut body = String::from("try{");
            while j < lines.len() && lines[j] != "} catch ( e ) { }" {
                body.push_str(lines[j]);
                body.push('\n');
                j += 1;
            }
            body.push('}');
            units.push(body);
            i = j + 1;
        } else {
            if !lines[i].is_empty() {
                units.push(format!("dep:{}", lines[i]));
            }
            i += 1;
        }
    }
    units.sort();
    units
}

#[derive(Clone, Debug, PartialEq, Eq)]
pub struct CosAns {
    pub hide: Vec<String>,
    pub procedural: Vec<String>,
    pub exceptions: Vec<String>,
    pub script: Vec<String>,
    pub generichide: bool,
}

fn sorted(h: &HashSet<String>) -> Vec<String> {
    let mut v: Vec<String> = h.iter().cloned().collect();
    v.sort();
    v
}

// -------------------------------------------------------------------------------------------
// System under test
// -------------------------------------------------------------------------------------------

pub enum Sut {
    Engine(Box<Engine>),
    Blocker(Box<Blocker>, ResourceStorage),
}

pub fn resource_collides(accepted: &[ResSpec], rs: &ResSpec) -> bool {
    accepted.iter().any(|m| std::iter::once(&m.name).chain(m.aliases.iter()).any(|n| n == &rs.name || rs.aliases.contains(n)))
}

/// Which resources of a list a store accepts when they are added in order.
pub fn accept_resources(list: &[ResSpec]) -> Vec<ResSpec> {
    let mut out: Vec<ResSpec> = vec![];
    for r in list {
        if !resource_collides(&out, r) {
            out.push(r.clone());
        }
    }
    out
}

pub fn to_resource(rs: &ResSpec) -> Resource {
    use base64::{engine::Engine as _, prelude::BASE64_STANDARD};
    let kind = match rs.kind.as_str() {
        "js" => ResourceType::Mime(MimeType::ApplicationJavascript),
        "fn" => ResourceType::Mime(MimeType::FnJavascript),
        "template" => ResourceType::Template,
        "gif" => ResourceType::Mime(MimeType::ImageGif),
        "txt" => ResourceType::Mime(MimeType::TextPlain),
        "html" => ResourceType::Mime(MimeType::TextHtml),
        _ => ResourceType::Mime(MimeType::Unknown),
    };
    Resource {
        name: rs.name.clone(),
        aliases: rs.aliases.clone(),
        kind,
        content: BASE64_STANDARD.encode(rs.content.as_bytes()),
        dependencies: rs.deps.clone(),
        permission: PermissionMask::from_bits(rs.perm),
    }
}

fn popts(perm: u8) -> ParseOptions {
    ParseOptions { permissions: PermissionMask::from_bits(perm), ..Default::default() }
}

pub fn build_filter_set(rules: &[Rule], debug: bool, mode: u8, tag_free: Option<&BTreeSet<String>>) -> FilterSet {
    // tag_free = Some(set): rules whose tag is in the set lose the tag option, others are dropped
    let mut lines: Vec<(String, u8)> = Vec::with_capacity(rules.len());
    for r in rules {
        match (&r.spec, tag_free) {
            (RuleSpec::Net(n), Some(set)) => match &n.tag {
                Some(t) if !set.contains(t) => continue,
                _ => lines.push((n.render(false), r.perm)),
            },
            _ => lines.push((r.text(), r.perm)),
        }
    }
    let mut fs = FilterSet::new(debug);
    let mut i = 0;
    while i < lines.len() {
        let perm = lines[i].1;
        let mut j = i;
        while j < lines.len() && lines[j].1 == perm {
            j += 1;
        }
        let run: Vec<&str> = lines[i..j].iter().map(|l| l.0.as_str()).collect();
        match mode {
            1 => {
                for l in &run {
                    let _ = fs.add_filter(l, popts(perm));
                }
            }
            2 => {
                for chunk in run.chunks(7) {
                    fs.add_filter_list(&chunk.join("\n"), popts(perm));
                }
            }
            _ => {
                fs.add_filters(run.iter(), popts(perm));
            }
        }
        i = j;
    }
    fs
}

pub fn parse_net(rules: &[Rule], debug: bool, tag_free: Option<&BTreeSet<String>>) -> Vec<NetworkFilter> {
    let mut out = vec![];
    for r in rules {
        if let RuleSpec::Net(n) = &r.spec {
            let line = match (tag_free, &n.tag) {
                (Some(set), Some(t)) => {
                    if !set.contains(t) {
                        continue;
                    }
                    n.render(false)
                }
                (Some(_), None) => n.render(false),
                (None, _) => n.render(true),
            };
            if let Ok(f) = NetworkFilter::parse(&line, debug, Default::default()) {
                out.push(f);
            }
        }
    }
    out
}

impl Sut {
    pub fn build(rules: &[Rule], resources: &[ResSpec], optimize: bool, debug: bool, mode: u8, blocker: bool, tag_free: Option<&BTreeSet<String>>) -> Sut {
        if blocker {
            let filters = parse_net(rules, debug, tag_free);
            let b = Blocker::new(filters, &BlockerOptions { enable_optimizations: optimize });
            Sut::Blocker(Box::new(b), ResourceStorage::from_resources(resources.iter().map(to_resource)))
        } else {
            let fs = build_filter_set(rules, debug, mode, tag_free);
            let mut e = Engine::from_filter_set(fs, optimize);
            e.use_resources(resources.iter().map(to_resource));
            Sut::Engine(Box::new(e))
        }
    }
    pub fn is_engine(&self) -> bool {
        matches!(self, Sut::Engine(_))
    }
    pub fn check(&self, rq: &Request) -> NetAns {
        let r = match self {
            Sut::Engine(e) => e.check_network_request(rq),
            Sut::Blocker(b, res) => b.check(rq, res),
        };
        // reach probe: in debug mode a fused rule names all its members
        if r.filter.as_deref().map(|f| f.contains(" <+> ")).unwrap_or(false) || r.exception.as_deref().map(|f| f.contains(" <+> ")).unwrap_or(false) {
            FUSED_MATCHES.with(|c| c.set(c.get() + 1));
        }
        NetAns::of(&r)
    }
    pub fn check_subset(&self, rq: &Request, m: bool, f: bool) -> NetAns {
        match self {
            Sut::Engine(e) => NetAns::of(&e.check_network_request_subset(rq, m, f)),
            Sut::Blocker(b, res) => NetAns::of(&b.check_parameterised(rq, res, m, f)),
        }
    }
    pub fn csp(&self, rq: &Request) -> Option<Vec<String>> {
        canon_csp(match self {
            Sut::Engine(e) => e.get_csp_directives(rq),
            Sut::Blocker(b, _) => b.get_csp_directives(rq),
        })
    }
    pub fn cosmetic(&self, url: &str) -> Option<CosAns> {
        match self {
            Sut::Engine(e) => {
                let r = e.url_cosmetic_resources(url);
                Some(CosAns {
                    hide: sorted(&r.hide_selectors),
                    procedural: sorted(&r.procedural_actions),
                    exceptions: sorted(&r.exceptions),
                    script: canon_script(&r.injected_script),
                    generichide: r.generichide,
                })
            }
            _ => None,
        }
    }
    pub fn classid(&self, ci: &ClassIds, page: &str) -> Option<Vec<String>> {
        match self {
            Sut::Engine(e) => {
                let exc = e.url_cosmetic_resources(page).exceptions;
                let mut v = e.hidden_class_id_selectors(ci.classes.iter(), ci.ids.iter(), &exc);
                v.sort();
                Some(v)
            }
            _ => None,
        }
    }
    pub fn use_tags(&mut self, t: &[&str]) {
        match self {
            Sut::Engine(e) => e.use_tags(t),
            Sut::Blocker(b, _) => b.use_tags(t),
        }
    }
    pub fn enable_tags(&mut self, t: &[&str]) {
        match self {
            Sut::Engine(e) => e.enable_tags(t),
            Sut::Blocker(b, _) => b.enable_tags(t),
        }
    }
    pub fn disable_tags(&mut self, t: &[&str]) {
        match self {
            Sut::Engine(e) => e.disable_tags(t),
            Sut::Blocker(b, _) => b.disable_tags(t),
        }
    }
    pub fn tag_exists(&self, t: &str) -> bool {
        match self {
            Sut::Engine(e) => e.tag_exists(t),
            Sut::Blocker(b, _) => b.tags_enabled().contains(&t.to_string()),
        }
    }
    pub fn set_policy(&mut self, iv: u64, un: u64) {
        let p = RegexManagerDiscardPolicy { cleanup_interval: Duration::from_nanos(iv), discard_unused_time: Duration::from_nanos(un) };
        match self {
            Sut::Engine(e) => e.set_regex_discard_policy(p),
            Sut::Blocker(b, _) => b.set_regex_discard_policy(p),
        }
    }
    pub fn debug_info(&self) -> (Vec<(u64, bool, usize)>, usize) {
        let d = match self {
            Sut::Engine(e) => e.get_regex_debug_info(),
            Sut::Blocker(b, _) => b.get_regex_debug_info(),
        };
        let mut v: Vec<(u64, bool, usize)> = d.regex_data.iter().map(|e| (e.id, e.regex.is_some(), e.usage_count)).collect();
        v.sort();
        (v, d.compiled_regex_count)
    }
    pub fn discard(&mut self, id: u64) {
        match self {
            Sut::Engine(e) => e.discard_regex(id),
            Sut::Blocker(b, _) => b.discard_regex(id),
        }
    }
    pub fn set_resources(&mut self, rs: &[ResSpec]) {
        match self {
            Sut::Engine(e) => e.use_resources(rs.iter().map(to_resource)),
            Sut::Blocker(_, st) => *st = ResourceStorage::from_resources(rs.iter().map(to_resource)),
        }
    }
    pub fn add_resource(&mut self, rs: &ResSpec) -> bool {
        match self {
            Sut::Engine(e) => e.add_resource(to_resource(rs)).is_ok(),
            Sut::Blocker(_, st) => st.add_resource(to_resource(rs)).is_ok(),
        }
    }
}

// -------------------------------------------------------------------------------------------
// Requests
// -------------------------------------------------------------------------------------------

pub struct Reqs {
    pub reqs: Vec<Option<Request>>,
}
impl Reqs {
    pub fn new(w: &World) -> Reqs {
        Reqs { reqs: w.probes.iter().map(|p| Request::new(&p.url, &p.source, &p.rtype).ok()).collect() }
    }
}

// -------------------------------------------------------------------------------------------
// Execution
// -------------------------------------------------------------------------------------------

#[derive(Clone, Debug, Serialize, Deserialize, PartialEq)]
pub struct Violation {
    pub property: String,
    pub oracle: String,
    pub step: i64,
    pub op: String,
    pub what: String,
    pub got: String,
    pub want: String,
}

impl Violation {
    /// The class a minimised candidate must preserve.
    pub fn class(&self) -> (String, String, String) {
        let field = self.what.split(' ').next().unwrap_or("").to_string();
        (self.property.clone(), self.oracle.clone(), field)
    }
}

/// Which oracles a check evaluates (one property each, so alarms are attributed properly).
#[derive(Clone, Copy, Debug, PartialEq, Eq)]
pub enum Check {
    C05,
    C06,
    C07,
    C08,
}
impl Check {
    pub fn id(&self) -> &'static str {
        match self {
            Check::C05 => "C05",
            Check::C06 => "C06",
            Check::C07 => "C07",
            Check::C08 => "C08",
        }
    }
}

#[derive(Clone, Debug)]
struct Slot {
    bytes: Vec<u8>,
    rules: Vec<Rule>,
    optimize: bool,
    debug: bool,
}

#[derive(Clone, Debug, Default, Serialize, Deserialize)]
pub struct RunStats {
    pub ops: u64,
    pub mutating_ops: u64,
    pub comparisons: u64,
    pub nondefault_answers: u64,
    pub sim_time_ns: u64,
    pub tag_switches: u64,
    pub reloads: u64,
    pub reload_foreign: u64,
    pub reload_with_tags: u64,
    pub restarts: u64,
    pub discards_requested: u64,
    pub add_filter_ok: u64,
    pub add_filter_err: u64,
    pub optimize_calls: u64,
    pub probes: [u64; 8],
    pub alloc_fresh: u64,
    pub alloc_recycled: u64,
    pub alloc_digest: u64,
    pub fused_match: u64,
    #[serde(default)]
    pub ops_on_helper_thread: u64,
    #[serde(default)]
    pub faulty_loads_rejected: u64,
    #[serde(default)]
    pub burst_calls: u64,
    pub states: Vec<u64>,
    pub op_kinds: u64,
}

pub struct Outcome {
    pub violation: Option<Violation>,
    pub stats: RunStats,
    pub digest: u64,
}

thread_local! {
    pub static FUSED_MATCHES: std::cell::Cell<u64> = const { std::cell::Cell::new(0) };
}
thread_local! {
    static LAST_PANIC: std::cell::RefCell<String> = const { std::cell::RefCell::new(String::new()) };
}

thread_local! {
    static QUIET: std::cell::Cell<bool> = const { std::cell::Cell::new(false) };
}
/// Panics on simulated-run threads are observations, not noise: record, do not print.
pub fn set_quiet(q: bool) {
    QUIET.with(|c| c.set(q));
}
pub fn install_quiet_panic_hook() {
    std::panic::set_hook(Box::new(|info| {
        let msg = format!("{}", info);
        if !QUIET.try_with(|c| c.get()).unwrap_or(false) {
            eprintln!("adsim harness panic: {}", msg);
        }
        let _ = LAST_PANIC.try_with(|p| *p.borrow_mut() = msg);
    }));
}
pub fn last_panic() -> String {
    LAST_PANIC.with(|p| p.borrow().clone())
}

enum Q {
    Net(usize),
    Subset(usize, bool, bool),
    Csp(usize),
    Cos(usize),
    Cid(usize, usize),
}

struct Model {
    rules: Vec<Rule>,
    tags: BTreeSet<String>,
    resources: Vec<ResSpec>,
    optimize: bool,
    debug: bool,
    /// Some(slot contents) if the current rule state was loaded from bytes
    from_bytes: Option<Slot>,
    version: u64,
}

struct Oracles {
    version: u64,
    fresh: Option<Sut>,
    noopt: Option<Sut>,
    tagfree: Option<Sut>,
    list: Option<Sut>,
}

/// Everything one oracle engine answers for the run's probe set. Computed on a *fresh thread* each
/// time the model changes and then dropped with its engine there: thread-local state of the code
/// under test (memo tables, scratch buffers) cannot leak between the system under test and its oracle.
struct OracleAnswers {
    name: &'static str,
    net: Vec<Option<NetAns>>,
    /// index = (matched_rule as usize) * 2 + (force as usize)
    subset: Vec<[Option<NetAns>; 4]>,
    csp: Vec<Option<Option<Vec<String>>>>,
    cos: Vec<Option<CosAns>>,
    cid: Vec<Vec<Option<Vec<String>>>>,
}

struct OracleSet {
    version: u64,
    sets: Vec<OracleAnswers>,
}

pub struct Exec<'a> {
    pub w: &'a World,
    pub check: Check,
    pub blocker: bool,
    pub reqs: Reqs,
}

/// Runs a state-changing call either here or on a helper thread (with the rule size class routed to
/// the simulated region and the simulated clock carried over).
fn maybe_other_thread<R: Send>(other: bool, f: impl FnOnce() -> R + Send) -> R {
    if !other {
        return seams::track(f);
    }
    let now = vh::clock_now_ns();
    std::thread::scope(|sc| {
        let h = std::thread::Builder::new()
            .stack_size(32 << 20)
            .spawn_scoped(sc, move || {
                set_quiet(true);
                vh::clock_set_ns(now);
                seams::track(f)
            })
            .expect("spawn helper thread");
        match h.join() {
            Ok(r) => r,
            Err(e) => std::panic::resume_unwind(e),
        }
    })
}

fn tagvec(s: &BTreeSet<String>) -> Vec<&str> {
    s.iter().map(|x| x.as_str()).collect()
}

fn load_bytes(slot: &Slot, optimize_knob: bool, tags: &BTreeSet<String>, resources: &[ResSpec]) -> Option<Sut> {
    let mut e = Engine::new(optimize_knob);
    if e.deserialize(&slot.bytes).is_err() {
        return None;
    }
    e.use_tags(&tagvec(tags));
    e.use_resources(resources.iter().map(to_resource));
    Some(Sut::Engine(Box::new(e)))
}

impl<'a> Exec<'a> {
    pub fn new(w: &'a World, check: Check, blocker: bool) -> Self {
        Exec { w, check, blocker, reqs: Reqs::new(w) }
    }

    fn oracle_answers(&self, m: &Model) -> OracleSet {
        let w = self.w;
        let version = m.version;
        let sets = std::thread::scope(|scope| {
            let h = std::thread::Builder::new()
                .stack_size(32 << 20)
                .spawn_scoped(scope, || {
                    set_quiet(true);
                    let r = catch_unwind(AssertUnwindSafe(|| {
                        let o = self.build_oracles(m);
                        let list: Vec<(&'static str, Option<Sut>)> =
                            vec![("fresh-engine", o.fresh), ("never-optimised", o.noopt), ("tag-free-reference", o.tagfree), ("engine-from-list", o.list)];
                        let mut out = vec![];
                        for (name, s) in list {
                            let s = match s {
                                Some(s) => s,
                                None => continue,
                            };
                            let mut a = OracleAnswers { name, net: vec![], subset: vec![], csp: vec![], cos: vec![], cid: vec![] };
                            for rq in self.reqs.reqs.iter() {
                                match rq {
                                    Some(rq) => {
                                        a.net.push(Some(s.check(rq)));
                                        a.subset.push([
                                            Some(s.check_subset(rq, false, false)),
                                            Some(s.check_subset(rq, false, true)),
                                            Some(s.check_subset(rq, true, false)),
                                            Some(s.check_subset(rq, true, true)),
                                        ]);
                                        a.csp.push(Some(s.csp(rq)));
                                    }
                                    None => {
                                        a.net.push(None);
                                        a.subset.push([None, None, None, None]);
                                        a.csp.push(None);
                                    }
                                }
                            }
                            for p in &w.pages {
                                a.cos.push(s.cosmetic(p));
                            }
                            for c in &w.classids {
                                a.cid.push(w.pages.iter().map(|p| s.classid(c, p)).collect());
                            }
                            out.push(a);
                        }
                        out
                    }));
                    r.unwrap_or_default()
                })
                .expect("spawn oracle thread");
            h.join().unwrap_or_default()
        });
        OracleSet { version, sets }
    }

    fn build_oracles(&self, m: &Model) -> Oracles {
        let mut o = Oracles { version: m.version, fresh: None, noopt: None, tagfree: None, list: None };
        let res = &m.resources;
        let with_tags = |mut s: Sut| -> Sut {
            s.use_tags(&tagvec(&m.tags));
            s
        };
        match self.check {
            Check::C06 => {
                o.fresh = Some(match &m.from_bytes {
                    Some(slot) => match load_bytes(slot, self.w.knobs.optimize, &m.tags, res) {
                        Some(s) => s,
                        None => return o,
                    },
                    None => with_tags(Sut::build(&m.rules, res, m.optimize, m.debug, 0, self.blocker, None)),
                });
            }
            Check::C05 => {
                // never-optimised engine built from the current rule list
                o.noopt = Some(with_tags(Sut::build(&m.rules, res, false, m.debug, 0, self.blocker, None)));
            }
            Check::C07 => {
                // tag-free reference: enabled tags stripped, disabled tagged rules removed, no tags enabled;
                // mirrored through the same serialize/load path when the SUT state came from bytes
                let s = match &m.from_bytes {
                    Some(slot) => {
                        let r = Sut::build(&slot.rules, res, slot.optimize, slot.debug, 0, false, Some(&m.tags));
                        if let Sut::Engine(e) = &r {
                            match e.serialize_raw() {
                                Ok(b) => {
                                    let s2 = Slot { bytes: b, rules: vec![], optimize: slot.optimize, debug: slot.debug };
                                    match load_bytes(&s2, self.w.knobs.optimize, &BTreeSet::new(), res) {
                                        Some(x) => x,
                                        None => return o,
                                    }
                                }
                                Err(_) => return o,
                            }
                        } else {
                            r
                        }
                    }
                    None => Sut::build(&m.rules, res, m.optimize, m.debug, 0, self.blocker, Some(&m.tags)),
                };
                o.tagfree = Some(s);
            }
            Check::C08 => {
                // the engine the bytes were taken from, rebuilt from its rule list: Engine(L)
                if let Some(slot) = &m.from_bytes {
                    o.list = Some(with_tags(Sut::build(&slot.rules, res, slot.optimize, slot.debug, 0, false, None)));
                }
            }
        }
        o
    }

    pub fn run(&self, ops: &[Op]) -> Outcome {
        let w = self.w;
        vh::reset();
        FUSED_MATCHES.with(|c| c.set(0));
        let mut stats = RunStats::default();
        let mut dg = Digest::new();
        let mut violation: Option<Violation> = None;
        let mut oracle_probe_noise = [0u64; 8];

        // ---- construct the system under test inside the tracked window
        let built = catch_unwind(AssertUnwindSafe(|| {
            seams::track(|| {
                let mut s = Sut::build(&w.rules, &w.resources, w.knobs.optimize, w.knobs.debug, w.knobs.build_mode, self.blocker, None);
                if let Some((iv, un)) = w.knobs.policy {
                    s.set_policy(iv, un);
                }
                s
            })
        }));
        let mut sut = match built {
            Ok(s) => s,
            Err(_) => {
                return Outcome {
                    violation: Some(Violation {
                        property: self.check.id().into(),
                        oracle: "no-panic".into(),
                        step: -1,
                        op: "build".into(),
                        what: "panic".into(),
                        got: last_panic(),
                        want: "no panic".into(),
                    }),
                    stats,
                    digest: dg.0,
                }
            }
        };
        let mut model = Model {
            rules: w.rules.clone(),
            tags: BTreeSet::new(),
            resources: accept_resources(&w.resources),
            optimize: w.knobs.optimize,
            debug: w.knobs.debug,
            from_bytes: None,
            version: 1,
        };
        // slot 3: another world's bytes (different rule list, other optimise setting)
        let mut slots: Vec<Option<Slot>> = vec![None, None, None, None, None];
        // one I/O buffer reused for every load, as an embedder reading DAT files into a fixed buffer would
        let mut iobuf: Vec<u8> = Vec::with_capacity(1 << 17);
        if !self.blocker {
            let alt: Vec<Rule> = w.rules.iter().rev().step_by(2).cloned().chain(w.extra.iter().cloned()).collect();
            let (opt, dbg) = (!w.knobs.optimize, w.knobs.debug);
            let s = Sut::build(&alt, &[], opt, dbg, 0, false, None);
            if let Sut::Engine(e) = &s {
                if let Ok(b) = e.serialize_raw() {
                    slots[3] = Some(Slot { bytes: b, rules: alt, optimize: opt, debug: dbg });
                }
            }
        }
        // slot 4: a near twin of this world's own list (one pattern word replaced by another of the same
        // length), so its image has the same length as the engine's own image but other content
        if !self.blocker {
            let mut twin = w.rules.clone();
            let swaps = [("ads", "img"), ("img", "ads"), ("ad", "js"), ("js", "ad"), ("v1", "v2"), ("v2", "v1"), ("api", "ads"), ("track", "pixel"), ("pixel", "track")];
            'find: for r in twin.iter_mut() {
                if let RuleSpec::Net(n) = &mut r.spec {
                    if n.tag.is_none() && !n.opts.iter().any(|o| o == "badfilter") {
                        for (a, b) in swaps.iter() {
                            let needle = format!("/{}", a);
                            if n.pat.contains(&needle) {
                                n.pat = n.pat.replacen(&needle, &format!("/{}", b), 1);
                                break 'find;
                            }
                        }
                    }
                }
            }
            if twin != w.rules {
                let s = Sut::build(&twin, &[], w.knobs.optimize, w.knobs.debug, 0, false, None);
                if let Sut::Engine(e) = &s {
                    if let Ok(b) = e.serialize_raw() {
                        slots[4] = Some(Slot { bytes: b, rules: twin, optimize: w.knobs.optimize, debug: w.knobs.debug });
                    }
                }
            }
        }
        let mut oracles = OracleSet { version: 0, sets: vec![] };
        let mut state_set: BTreeSet<u64> = BTreeSet::new();
        let mut last_query: Option<Op> = None;
        let mut other_thread_next = false;

        macro_rules! fail {
            ($oracle:expr, $step:expr, $op:expr, $what:expr, $got:expr, $want:expr) => {{
                if violation.is_none() {
                    violation = Some(Violation {
                        property: self.check.id().into(),
                        oracle: $oracle.into(),
                        step: $step as i64,
                        op: $op,
                        what: $what,
                        got: $got,
                        want: $want,
                    });
                }
            }};
        }

        let all_ops: Vec<Op> = std::iter::once(Op::ProbeAll).chain(ops.iter().cloned()).chain(std::iter::once(Op::ProbeAll)).collect();
        'ops: for (step, op) in all_ops.iter().enumerate() {
            if violation.is_some() {
                break;
            }
            stats.ops += 1;
            stats.op_kinds = stats.op_kinds.wrapping_mul(31).wrapping_add(crate::rng::tag_of(op.kind()));
            dg.str(op.kind());
            let opdesc = format!("{:?}", op);
            if op.mutating() {
                stats.mutating_ops += 1;
            }
            if matches!(op, Op::OnOtherThread) {
                other_thread_next = true;
                continue;
            }
            let on_helper = other_thread_next && op.mutating();
            if op.mutating() {
                other_thread_next = false;
            }
            if on_helper {
                stats.ops_on_helper_thread += 1;
            }
            // ---- apply to the system under test (and to the model)
            let applied = catch_unwind(AssertUnwindSafe(|| -> Result<(), (String, String, String, String)> {
                match op {
                    Op::UseTags(t) => {
                        let tv: Vec<&str> = t.iter().map(|s| s.as_str()).collect();
                        maybe_other_thread(on_helper, || sut.use_tags(&tv));
                        model.tags = t.iter().cloned().collect();
                        model.version += 1;
                        stats.tag_switches += 1;
                    }
                    Op::EnableTags(t) => {
                        let tv: Vec<&str> = t.iter().map(|s| s.as_str()).collect();
                        maybe_other_thread(on_helper, || sut.enable_tags(&tv));
                        for x in t {
                            model.tags.insert(x.clone());
                        }
                        model.version += 1;
                        stats.tag_switches += 1;
                    }
                    Op::DisableTags(t) => {
                        let tv: Vec<&str> = t.iter().map(|s| s.as_str()).collect();
                        maybe_other_thread(on_helper, || sut.disable_tags(&tv));
                        for x in t {
                            model.tags.remove(x);
                        }
                        model.version += 1;
                        stats.tag_switches += 1;
                    }
                    Op::TagExists(t) => {
                        let got = sut.tag_exists(t);
                        let want = model.tags.contains(t);
                        dg.u64(got as u64);
                        if self.check == Check::C07 || self.check == Check::C06 {
                            if got != want {
                                return Err(("tag-model".into(), format!("tag_exists {}", t), got.to_string(), want.to_string()));
                            }
                        }
                    }
                    Op::SetPolicy(iv, un) => sut.set_policy(*iv, *un),
                    Op::Advance(dt) => {
                        vh::clock_advance_ns(*dt);
                        stats.sim_time_ns = stats.sim_time_ns.saturating_add(*dt);
                    }
                    Op::DiscardRegex(k) => {
                        let (entries, _) = sut.debug_info();
                        if !entries.is_empty() {
                            let id = entries[*k % entries.len()].0;
                            sut.discard(id);
                            stats.discards_requested += 1;
                        }
                    }
                    Op::DebugInfo => {
                        let (entries, compiled) = sut.debug_info();
                        let live = entries.iter().filter(|e| e.1).count();
                        dg.u64(entries.len() as u64);
                        dg.u64(live as u64);
                        if compiled < live {
                            return Err(("debug-info".into(), "compiled_count".into(), compiled.to_string(), format!(">= {}", live)));
                        }
                    }
                    Op::Serialize(slot) => {
                        if let Sut::Engine(e) = &sut {
                            match e.serialize_raw() {
                                Ok(b) => {
                                    dg.u64(b.len() as u64);
                                    let (rules, optimize, debug) = match &model.from_bytes {
                                        Some(s) => (s.rules.clone(), s.optimize, s.debug),
                                        None => (model.rules.clone(), model.optimize, model.debug),
                                    };
                                    slots[*slot] = Some(Slot { bytes: b, rules, optimize, debug });
                                }
                                Err(e) => return Err(("serialize".into(), "serialize_raw".into(), format!("{:?}", e), "Ok".into())),
                            }
                        }
                    }
                    Op::Deserialize(slot) => {
                        if let (Sut::Engine(e), Some(s)) = (&mut sut, slots[*slot].clone()) {
                            iobuf.clear();
                            iobuf.extend_from_slice(&s.bytes);
                            let io = &iobuf[..];
                            let r = maybe_other_thread(on_helper, || e.deserialize(io));
                            match r {
                                Ok(()) => {
                                    stats.reloads += 1;
                                    if *slot == 3 || *slot == 4 {
                                        stats.reload_foreign += 1;
                                    }
                                    if !model.tags.is_empty() {
                                        stats.reload_with_tags += 1;
                                    }
                                    model.rules = s.rules.clone();
                                    model.optimize = s.optimize;
                                    model.debug = s.debug;
                                    model.from_bytes = Some(s);
                                    model.version += 1;
                                }
                                Err(e) => return Err(("deserialize".into(), "deserialize own bytes".into(), format!("{:?}", e), "Ok".into())),
                            }
                        }
                    }
                    Op::LoadFaulty(slot, kind, k) => {
                        if let Sut::Engine(e) = &mut sut {
                            let image: Vec<u8> = match slots[*slot].clone() {
                                Some(s) => s.bytes,
                                None => match e.serialize_raw() {
                                    Ok(b) => b,
                                    Err(e) => return Err(("serialize".into(), "serialize_raw".into(), format!("{:?}", e), "Ok".into())),
                                },
                            };
                            iobuf.clear();
                            match kind {
                                0 => {}
                                1 => iobuf.extend_from_slice(&image[..(image.len() * (*k as usize) / 8).min(image.len().saturating_sub(1))]),
                                2 => {
                                    iobuf.extend_from_slice(&image);
                                    if iobuf.len() > 4 {
                                        iobuf[4] = iobuf[4].wrapping_add(1 + *k);
                                    }
                                }
                                3 => {
                                    iobuf.extend_from_slice(&[0x1f, 0x8b]);
                                    iobuf.extend_from_slice(&image);
                                }
                                _ => iobuf.extend_from_slice(&image[..image.len().min(5)]),
                            }
                            let io = &iobuf[..];
                            let r = maybe_other_thread(on_helper, || e.deserialize(io));
                            match r {
                                Err(_) => stats.faulty_loads_rejected += 1,
                                // (whether a damaged image may load is C10's business; here the history simply ends)
                                Ok(()) => return Err(("skip".into(), String::new(), String::new(), String::new())),
                            }
                        }
                    }
                    Op::Burst(kind, n, a, b) => {
                        let av: Vec<&str> = a.iter().map(|s| s.as_str()).collect();
                        let bv: Vec<&str> = b.iter().map(|s| s.as_str()).collect();
                        match kind {
                            0 => {
                                seams::track(|| {
                                    for i in 0..*n {
                                        sut.use_tags(if i % 2 == 0 { &av } else { &bv });
                                    }
                                });
                                model.tags = if *n % 2 == 1 { a.iter().cloned().collect() } else { b.iter().cloned().collect() };
                                model.version += 1;
                                stats.tag_switches += *n as u64;
                            }
                            2 => {
                                seams::track(|| {
                                    for _ in 0..*n {
                                        sut.enable_tags(&av);
                                    }
                                });
                                for x in a {
                                    model.tags.insert(x.clone());
                                }
                                model.version += 1;
                                stats.tag_switches += *n as u64;
                            }
                            _ => {
                                // the most recent network query, n - 1 more times; the probes that follow compare
                                if let Some(Op::Check(i)) = &last_query {
                                    if let Some(rq) = self.reqs.reqs[*i].as_ref() {
                                        for _ in 1..(*n).min(300) {
                                            let _ = sut.check(rq);
                                        }
                                    }
                                }
                            }
                        }
                        stats.burst_calls += *n as u64;
                    }
                    Op::Restart => {
                        if let Sut::Engine(e) = &sut {
                            let b = match e.serialize_raw() {
                                Ok(b) => b,
                                Err(e) => return Err(("serialize".into(), "serialize_raw".into(), format!("{:?}", e), "Ok".into())),
                            };
                            let (rules, optimize, debug) = match &model.from_bytes {
                                Some(s) => (s.rules.clone(), s.optimize, s.debug),
                                None => (model.rules.clone(), model.optimize, model.debug),
                            };
                            let s = Slot { bytes: b, rules, optimize, debug };
                            // the process "dies": only the bytes survive. A new engine is created, loads them
                            // and the embedder re-applies its tags and resources.
                            let tags = model.tags.clone();
                            let res = model.resources.clone();
                            let knob = w.knobs.optimize;
                            let ne = maybe_other_thread(on_helper, || {
                                let mut ne = Engine::new(knob);
                                let r = ne.deserialize(&s.bytes);
                                ne.use_tags(&tagvec(&tags));
                                ne.use_resources(res.iter().map(to_resource));
                                r.map(|_| ne)
                            });
                            match ne {
                                Ok(ne) => {
                                    sut = Sut::Engine(Box::new(ne));
                                    stats.restarts += 1;
                                    model.optimize = s.optimize;
                                    model.debug = s.debug;
                                    model.rules = s.rules.clone();
                                    model.from_bytes = Some(s);
                                    model.version += 1;
                                }
                                Err(e) => return Err(("deserialize".into(), "restart".into(), format!("{:?}", e), "Ok".into())),
                            }
                        }
                    }
                    Op::UseResources(idx) => {
                        let rs: Vec<ResSpec> = idx.iter().map(|i| w.resources[*i].clone()).collect();
                        maybe_other_thread(on_helper, || sut.set_resources(&rs));
                        // the model keeps what a store must have accepted: a resource is taken as a whole
                        // unless one of its identifiers is already in use
                        model.resources = accept_resources(&rs);
                        model.version += 1;
                    }
                    Op::AddResource(i) => {
                        let rs = &w.resources[*i];
                        let ok = maybe_other_thread(on_helper, || sut.add_resource(rs));
                        let dup = resource_collides(&model.resources, rs);
                        if ok {
                            model.resources.push(rs.clone());
                            model.version += 1;
                        }
                        if ok == dup {
                            return Err(("resource-model".into(), format!("add_resource {}", rs.name), format!("ok={}", ok), format!("ok={}", !dup)));
                        }
                    }
                    Op::AddFilter(i) => {
                        if let Sut::Blocker(b, _) = &mut sut {
                            let rule = &w.extra[*i];
                            if let Ok(f) = NetworkFilter::parse(&rule.text(), w.knobs.debug, Default::default()) {
                                let r = maybe_other_thread(on_helper, || b.add_filter(f));
                                dg.u64(r.is_ok() as u64);
                                // a batch build would contain this rule unless the very same line is already
                                // loaded: an Err for a rule that is merely *similar* to a loaded one (other tag,
                                // other domain list) therefore shows up as a difference to the fresh engine
                                let duplicate_line = model.rules.iter().any(|m| m.text() == rule.text());
                                if r.is_ok() {
                                    stats.add_filter_ok += 1;
                                } else {
                                    stats.add_filter_err += 1;
                                }
                                if r.is_ok() || !duplicate_line {
                                    model.rules.push(rule.clone());
                                    model.version += 1;
                                }
                            }
                        }
                    }
                    Op::Optimize => {
                        if let Sut::Blocker(b, _) = &mut sut {
                            maybe_other_thread(on_helper, || b.optimize());
                            stats.optimize_calls += 1;
                            if self.check != Check::C05 {
                                // C06 compares against a fresh engine of the same configuration; whether
                                // optimisation itself preserves verdicts is C05's question
                                model.optimize = true;
                            }
                            model.version += 1;
                        }
                    }
                    _ => {}
                }
                Ok(())
            }));
            match applied {
                Err(_) => {
                    fail!("no-panic", step, opdesc.clone(), "panic".to_string(), last_panic(), "no panic".to_string());
                    break 'ops;
                }
                Ok(Err((oracle, _, _, _))) if oracle == "skip" => break 'ops,
                Ok(Err((oracle, what, got, want))) => {
                    fail!(oracle, step, opdesc.clone(), what, got, want);
                    break 'ops;
                }
                Ok(Ok(())) => {}
            }
            // ---- the enabled-tag set is part of the state every operation must leave as the model says
            if op.mutating() && matches!(self.check, Check::C06 | Check::C07 | Check::C08) {
                for t in w.tags.iter().map(|s| s.as_str()).chain(std::iter::once("unknown")) {
                    let got = sut.tag_exists(t);
                    let want = model.tags.contains(t);
                    if got != want {
                        fail!("tag-model", step, opdesc.clone(), format!("tag_exists {} after the operation", t), got.to_string(), want.to_string());
                        break 'ops;
                    }
                }
            }

            // ---- oracles for the current model state
            if oracles.version != model.version {
                oracles = self.oracle_answers(&model);
            }

            // ---- which probes to evaluate
            let mut qs: Vec<Q> = vec![];
            // a state change is first followed by the most recent single query again (same request,
            // back to back): the case a "last verdict" memo would get wrong
            if op.mutating() {
                if let Some(lq) = &last_query {
                    qs.push(match lq {
                        Op::Check(i) => Q::Net(*i),
                        Op::CheckSubset(i, m, f) => Q::Subset(*i, *m, *f),
                        Op::Csp(i) => Q::Csp(*i),
                        Op::Cosmetic(p) if sut.is_engine() => Q::Cos(*p),
                        Op::ClassId(c, p) if sut.is_engine() => Q::Cid(*c, *p),
                        _ => Q::Net(0),
                    });
                }
            }
            if matches!(op, Op::Check(_) | Op::CheckSubset(..) | Op::Csp(_) | Op::Cosmetic(_) | Op::ClassId(..)) {
                last_query = Some(op.clone());
            }
            let full = op.mutating() && !matches!(op, Op::Advance(_) | Op::SetPolicy(..) | Op::Serialize(_)) || matches!(op, Op::ProbeAll);
            if full {
                for i in 0..w.probes.len() {
                    qs.push(Q::Net(i));
                    let t = w.probes[i].rtype.as_str();
                    if t == "document" || t == "subdocument" {
                        qs.push(Q::Csp(i));
                    }
                    if i % 7 == 3 {
                        qs.push(Q::Subset(i, i % 2 == 0, true));
                    }
                }
                if sut.is_engine() {
                    for p in 0..w.pages.len() {
                        qs.push(Q::Cos(p));
                    }
                    for c in 0..w.classids.len() {
                        qs.push(Q::Cid(c, c % w.pages.len()));
                    }
                }
            } else {
                match op {
                    Op::Check(i) => qs.push(Q::Net(*i)),
                    Op::CheckSubset(i, m, f) => qs.push(Q::Subset(*i, *m, *f)),
                    Op::Csp(i) => qs.push(Q::Csp(*i)),
                    Op::Cosmetic(p) => qs.push(Q::Cos(*p)),
                    Op::ClassId(c, p) => qs.push(Q::Cid(*c, *p)),
                    Op::Advance(_) | Op::SetPolicy(..) => {
                        // a few queries right after time moved, so cleanup runs with a warm cache
                        for i in 0..w.probes.len().min(6) {
                            qs.push(Q::Net(i));
                        }
                    }
                    _ => {}
                }
            }

            for q in qs {
                let res = catch_unwind(AssertUnwindSafe(|| -> Option<(String, String, String, String)> {
                    match q {
                        Q::Net(i) | Q::Subset(i, _, _) => {
                            let rq = self.reqs.reqs[i].as_ref()?;
                            let (got, label) = match q {
                                Q::Subset(_, m, f) => (sut.check_subset(rq, m, f), format!("check_subset probe#{} {:?} matched_rule={} force={}", i, w.probes[i], m, f)),
                                _ => (sut.check(rq), format!("check probe#{} {:?}", i, w.probes[i])),
                            };
                            dg.str(&got.show());
                            stats.comparisons += 1;
                            if !got.is_default() {
                                stats.nondefault_answers += 1;
                            }
                            for o in oracles.sets.iter() {
                                let want = match q {
                                    Q::Subset(_, m, f) => o.subset[i][(m as usize) * 2 + (f as usize)].as_ref(),
                                    _ => o.net[i].as_ref(),
                                };
                                if let Some(want) = want {
                                    if &got != want {
                                        return Some((o.name.to_string(), label, got.show(), want.show()));
                                    }
                                }
                            }
                        }
                        Q::Csp(i) => {
                            let rq = self.reqs.reqs[i].as_ref()?;
                            let got = sut.csp(rq);
                            dg.str(&format!("{:?}", got));
                            stats.comparisons += 1;
                            if got.is_some() {
                                stats.nondefault_answers += 1;
                            }
                            for o in oracles.sets.iter() {
                                if let Some(want) = o.csp[i].as_ref() {
                                    if &got != want {
                                        return Some((o.name.to_string(), format!("csp probe#{} {:?}", i, w.probes[i]), format!("{:?}", got), format!("{:?}", want)));
                                    }
                                }
                            }
                        }
                        Q::Cos(p) => {
                            let got = sut.cosmetic(&w.pages[p])?;
                            dg.str(&format!("{:?}", got));
                            stats.comparisons += 1;
                            if !got.hide.is_empty() || !got.script.is_empty() || !got.procedural.is_empty() {
                                stats.nondefault_answers += 1;
                            }
                            for o in oracles.sets.iter() {
                                if let Some(want) = o.cos[p].as_ref() {
                                    if &got != want {
                                        return Some((o.name.to_string(), format!("cosmetic page#{} {}", p, w.pages[p]), format!("{:?}", got), format!("{:?}", want)));
                                    }
                                }
                            }
                        }
                        Q::Cid(c, p) => {
                            let got = sut.classid(&w.classids[c], &w.pages[p])?;
                            dg.str(&format!("{:?}", got));
                            stats.comparisons += 1;
                            if !got.is_empty() {
                                stats.nondefault_answers += 1;
                            }
                            for o in oracles.sets.iter() {
                                if let Some(want) = o.cid[c][p].as_ref() {
                                    if &got != want {
                                        return Some((o.name.to_string(), format!("classid set#{} page#{}", c, p), format!("{:?}", got), format!("{:?}", want)));
                                    }
                                }
                            }
                        }
                    }
                    None
                }));
                match res {
                    Err(_) => {
                        fail!("no-panic", step, opdesc.clone(), "panic in query".to_string(), last_panic(), "no panic".to_string());
                        break 'ops;
                    }
                    Ok(Some((oracle, what, got, want))) => {
                        fail!(oracle, step, opdesc.clone(), what, got, want);
                        break 'ops;
                    }
                    Ok(None) => {}
                }
            }

            // abstract state reached: tags x rule-state id x effective optimise flag x cache shape
            let mut sd = Digest::new();
            for t in &model.tags {
                sd.str(t);
            }
            sd.u64(model.rules.len() as u64);
            sd.u64(model.from_bytes.is_some() as u64);
            sd.u64(model.optimize as u64);
            if let Ok((entries, _)) = catch_unwind(AssertUnwindSafe(|| sut.debug_info())) {
                sd.u64(entries.len() as u64);
                sd.u64(entries.iter().filter(|e| e.1).count() as u64);
            }
            state_set.insert(sd.0);
        }

        // drop the system under test on this thread, inside the run
        let dropped = catch_unwind(AssertUnwindSafe(|| drop(sut)));
        if dropped.is_err() {
            fail!("no-panic", -2, "drop".to_string(), "panic".to_string(), last_panic(), "no panic".to_string());
        }
        drop(oracles);

        let p = vh::probes();
        for i in 0..8 {
            stats.probes[i] = p[i].saturating_sub(oracle_probe_noise[i]);
        }
        stats.fused_match = FUSED_MATCHES.with(|c| c.get());
        stats.states = state_set.into_iter().collect();
        Outcome { violation, stats, digest: dg.0 }
    }
}


// -------------------------------------------------------------------------------------------
// Warm-up
// -------------------------------------------------------------------------------------------

/// A fixed world that touches every lazily initialised static of the crate (all rule shapes of
/// the generator plus hand-written lines for the rarely used regexes).
pub fn kitchen_sink_world() -> World {
    let p = Profile {
        n_rules: (120, 120),
        n_probes: (30, 30),
        p_tag: 35,
        p_regexish: 50,
        cosmetic: true,
        removeparam: true,
        redirect: true,
        csp: true,
        badfilter: true,
        generichide: true,
        perms: true,
        tag_on_modifiers: false,
        extra: 8,
        tiny_patterns: true,
        non_ascii_urls: false,
        hostname_wildcards: false,
    };
    let mut w = gen_world(0x5157_a7e5, &p);
    for k in 1..12u64 {
        let w2 = gen_world(0x5157_a7e5 + k, &p);
        w.rules.extend(w2.rules);
        w.probes.extend(w2.probes.into_iter().take(6));
    }
    let extra_lines = [
        "example.com##+js(set, a, b, c, d, e, f, g, h, i)",
        "example.com##+js(noop)",
        "##.a\\:b",
        "##.c\\31 23",
        "###id\\.x > .y",
        "example.com##.x:has-text(/ad/)",
        "example.com##.x:style(color: red !important)",
        "example.com#@#.x",
        "example.*,~sub.example.com##.ent",
        "$removeparam=utm_source",
        "||example.com^$removeparam=ref",
        "||example.com^$redirect=noop.js:5",
        "||example.com^$csp=script-src 'self'",
        "@@||example.com^$csp",
        "/banner[0-9]+/$match-case",
        "127.0.0.1 hosts.example.com",
        "||xn--e1aybc.example^",
        "a*b^c|",
        "|https://example.com/path|",
        "*$script,domain=example.com",
    ];
    for l in extra_lines {
        w.rules.push(Rule { spec: RuleSpec::Cos(l.to_string()), perm: 3 });
    }
    w.knobs.optimize = false;
    w.knobs.debug = true;
    w
}

/// Executes the kitchen-sink world on `n` consecutive fresh threads. The `regex` crate shards the
/// cache pool of every (static) Regex by a global thread counter modulo 8, and creating a cache
/// draws a hash seed from std's per-thread counter: until every shard of every static regex holds
/// a cache, the hash keys a run sees depend on which runs came before it. 16 consecutive threads
/// saturate all shards.
pub fn warm_up_statics(n: usize) {
    let w = std::sync::Arc::new(kitchen_sink_world());
    for t in 0..n {
        let w = w.clone();
        seams::hashkey_set(0x77aa_0000 + t as u64);
        let h = std::thread::Builder::new()
            .stack_size(32 << 20)
            .spawn(move || {
                set_quiet(true);
                let _ = catch_unwind(AssertUnwindSafe(|| {
                    for optimize in [false, true] {
                        let reqs = Reqs::new(&w);
                        let mut s = Sut::build(&w.rules, &w.resources, optimize, true, (t % 3) as u8, false, None);
                        for round in 0..2 {
                            for rq in reqs.reqs.iter().flatten() {
                                let _ = s.check(rq);
                                let _ = s.csp(rq);
                                let _ = s.check_subset(rq, true, true);
                            }
                            for p in &w.pages {
                                let _ = s.cosmetic(p);
                                for c in &w.classids {
                                    let _ = s.classid(c, p);
                                }
                            }
                            let tv: Vec<&str> = w.tags.iter().map(|x| x.as_str()).collect();
                            if round == 0 {
                                s.use_tags(&tv);
                            }
                        }
                        let _ = s.debug_info();
                        if let Sut::Engine(e) = &mut s {
                            if let Ok(b) = e.serialize_raw() {
                                let _ = e.deserialize(&b);
                                let _ = e.deserialize(&b[..b.len() / 2]);
                            }
                            for rq in reqs.reqs.iter().flatten() {
                                let _ = e.check_network_request(rq);
                            }
                        }
                        let mut b = Sut::build(&w.rules, &w.resources, optimize, false, 0, true, None);
                        for rq in reqs.reqs.iter().flatten() {
                            let _ = b.check(rq);
                        }
                        if let Sut::Blocker(bl, _) = &mut b {
                            bl.optimize();
                            for r in &w.extra {
                                if let Ok(f) = NetworkFilter::parse(&r.text(), true, Default::default()) {
                                    let _ = bl.add_filter(f);
                                }
                            }
                        }
                        for rq in reqs.reqs.iter().flatten() {
                            let _ = b.check(rq);
                        }
                    }
                }));
            })
            .expect("spawn warm-up thread");
        let _ = h.join();
    }
}
