//! Worlds: rule pools, resources, probes and knobs, generated from the `workload` stream over a
//! deliberately small vocabulary (so that rules share tokens, buckets and fusion groups) and then
//! written out in full, so that a replay file never depends on the generator staying the same.

use crate::rng::Rng;
use serde::{Deserialize, Serialize};

#[derive(Clone, Debug, Serialize, Deserialize, PartialEq)]
pub struct NetRule {
    pub exc: bool,
    pub pat: String,
    pub opts: Vec<String>,
    pub tag: Option<String>,
}

#[derive(Clone, Debug, Serialize, Deserialize, PartialEq)]
pub enum RuleSpec {
    Net(NetRule),
    Cos(String),
}

#[derive(Clone, Debug, Serialize, Deserialize, PartialEq)]
pub struct Rule {
    pub spec: RuleSpec,
    /// permission mask of the list this line belongs to
    pub perm: u8,
}

impl NetRule {
    pub fn render(&self, with_tag: bool) -> String {
        let mut s = String::new();
        if self.exc {
            s.push_str("@@");
        }
        s.push_str(&self.pat);
        let mut opts: Vec<String> = self.opts.clone();
        if with_tag {
            if let Some(t) = &self.tag {
                opts.push(format!("tag={}", t));
            }
        }
        if !opts.is_empty() {
            s.push('$');
            s.push_str(&opts.join(","));
        }
        s
    }
}

impl Rule {
    pub fn text(&self) -> String {
        match &self.spec {
            RuleSpec::Net(n) => n.render(true),
            RuleSpec::Cos(c) => c.clone(),
        }
    }
    pub fn tag(&self) -> Option<&str> {
        match &self.spec {
            RuleSpec::Net(n) => n.tag.as_deref(),
            _ => None,
        }
    }
    pub fn is_net(&self) -> bool {
        matches!(self.spec, RuleSpec::Net(_))
    }
    pub fn has_opt(&self, prefix: &str) -> bool {
        match &self.spec {
            RuleSpec::Net(n) => n.opts.iter().any(|o| o.starts_with(prefix)),
            _ => false,
        }
    }
}

#[derive(Clone, Debug, Serialize, Deserialize, PartialEq)]
pub struct ResSpec {
    pub name: String,
    pub aliases: Vec<String>,
    /// "js" | "fn" | "template" | "gif" | "txt" | "html"
    pub kind: String,
    pub content: String,
    pub deps: Vec<String>,
    pub perm: u8,
}

#[derive(Clone, Debug, Serialize, Deserialize, PartialEq)]
pub struct Probe {
    pub url: String,
    pub source: String,
    pub rtype: String,
}

#[derive(Clone, Debug, Serialize, Deserialize, PartialEq)]
pub struct ClassIds {
    pub classes: Vec<String>,
    pub ids: Vec<String>,
}

#[derive(Clone, Debug, Serialize, Deserialize, PartialEq)]
pub struct Knobs {
    pub optimize: bool,
    pub debug: bool,
    /// 0 = one add_filters batch, 1 = line by line add_filter, 2 = several add_filter_list chunks
    pub build_mode: u8,
    pub alloc_policy: u8,
    pub alloc_seed: u64,
    pub hash_key: u64,
    /// initial discard policy (ns); None = crate default
    pub policy: Option<(u64, u64)>,
}

#[derive(Clone, Debug, Serialize, Deserialize, PartialEq)]
pub struct World {
    pub rules: Vec<Rule>,
    /// network rules available to `AddFilter` operations (Blocker driver)
    pub extra: Vec<Rule>,
    pub resources: Vec<ResSpec>,
    pub probes: Vec<Probe>,
    pub pages: Vec<String>,
    pub classids: Vec<ClassIds>,
    pub tags: Vec<String>,
    pub knobs: Knobs,
}

/// Which rule shapes a property's worlds contain (swarm: each run additionally switches a
/// random subset off).
#[derive(Clone, Debug)]
pub struct Profile {
    pub n_rules: (usize, usize),
    pub n_probes: (usize, usize),
    pub p_tag: u32,
    pub p_regexish: u32,
    pub cosmetic: bool,
    pub removeparam: bool,
    pub redirect: bool,
    pub csp: bool,
    pub badfilter: bool,
    pub generichide: bool,
    pub perms: bool,
    pub tag_on_modifiers: bool,
    pub extra: usize,
    /// pattern-less (options only), `*` and single-character patterns
    pub tiny_patterns: bool,
    /// `||*...` rules (hostname anchor with an empty / wildcard hostname). Like non-ASCII URLs only
    /// for checks whose oracle indexes the same list the same way: the token after the `*` is
    /// indexed although the wildcard can glue other characters to it (index completeness, C01).
    pub hostname_wildcards: bool,
    /// raw non-ASCII letters in probe URLs. Only for checks whose oracle indexes the *same* rule
    /// list the same way (C05, C08): the URL tokenizer is Unicode-aware while the separator `^` is
    /// byte-based, so whether a rule is found for such a URL depends on its bucket (C01).
    pub non_ascii_urls: bool,
}

pub const HOSTS: &[&str] = &[
    "example.com",
    "ads.example.com",
    "cdn.example.com",
    "tracker.net",
    "a.tracker.net",
    "foo.org",
    "bar.co.uk",
    "x.bar.co.uk",
];
pub const DOMAINS: &[&str] = &["example.com", "tracker.net", "foo.org", "bar.co.uk"];
pub const SEGS: &[&str] = &[
    "ad", "ads", "banner", "track", "pixel", "img", "js", "api", "v1", "v2", "promo", "static",
];
pub const EXTS: &[&str] = &[".js", ".gif", ".png", ".html", "", ".css"];
pub const QKEYS: &[&str] = &["utm", "id", "ref", "q", "UTM", "Id", "sessionID", "sessionid"];
pub const QVALS: &[&str] = &["1", "abc", "", "x_y"];
pub const TYPES: &[&str] = &[
    "main_frame",
    "sub_frame",
    "xhr",
    "beacon",
    "object",
    "imageset",
    "csp_report",
    "speculative",
    "",
    "script",
    "image",
    "stylesheet",
    "xmlhttprequest",
    "subdocument",
    "document",
    "websocket",
    "other",
    "font",
    "media",
    "ping",
];
pub const TYPE_OPTS: &[&str] = &[
    "media",
    "ping",
    "object",
    "~xhr",
    "~stylesheet",
    "css",
    "frame",
    "beacon",
    "doc",
    "~subdocument",
    "~websocket",
    "~font",
    "xmlhttprequest",
    "object-subrequest",
    "script",
    "image",
    "stylesheet",
    "xhr",
    "subdocument",
    "websocket",
    "~script",
    "~image",
    "document",
    "font",
    "other",
];
pub const TAGS: &[&str] = &["t1", "t2", "T3-x"];
pub const REDIRECTS: &[&str] = &["noop.js", "1x1.gif", "noop.txt", "missing.js", "perm.js", "nooptext", "fnlib.fn", "noop-alt", "1x1-blank.gif", "blank", "noopjs"];
pub const CSPS: &[&str] = &["script-src 'none'", "img-src 'self'", "frame-src *", "worker-src 'none'"];
pub const CLASSES: &[&str] = &["ad", "ads", "banner", "sponsor", "promo", "box", "реклама"];
pub const IDS: &[&str] = &["top", "side", "ad-slot", "footer", "баннер"];

fn pick_s(r: &mut Rng, xs: &[&str]) -> String {
    (*r.pick(xs)).to_string()
}

pub fn gen_pattern(r: &mut Rng, p_regexish: u32) -> (String, bool) {
    gen_pattern_t(r, p_regexish, true)
}

pub fn gen_pattern_t(r: &mut Rng, p_regexish: u32, tiny: bool) -> (String, bool) {
    gen_pattern_h(r, p_regexish, tiny, false)
}

pub fn gen_pattern_h(r: &mut Rng, p_regexish: u32, tiny: bool, hostwild: bool) -> (String, bool) {
    // returns (pattern, is_complete_regex)
    let h = pick_s(r, HOSTS);
    let s1 = pick_s(r, SEGS);
    let s2 = pick_s(r, SEGS);
    let e = pick_s(r, EXTS);
    if r.chance(p_regexish) {
        match r.below(if hostwild { 16 } else { 13 }) {
            // hostname-anchored rules whose hostname part is empty or a wildcard
            13 => (format!("||*/{}/{}", s1, s2), false),
            14 => (format!("||*{}^", s1), false),
            15 => (format!("||*.{}/{}*", r.pick(DOMAINS), s1), false),
            9 => (format!("{}*{}|", s1, if e.is_empty() { ".gif".into() } else { e }), false),
            10 => (format!("|https://{}/*{}", h, s1), false),
            11 => (format!("/{}*{}|", s1, if e.is_empty() { ".js".into() } else { e }), false),
            12 => {
                if r.chance(40) {
                    // two separators in a row
                    (format!("/{}^^{}", s1, s2), false)
                } else {
                    (format!("|http*://{}/{}", h, s1), false)
                }
            }
            0 => (format!("/{}/*/{}", s1, s2), false),
            1 => (format!("/{}^", s1), false),
            2 => (format!("^{}^", s1), false),
            3 => (format!("{}*{}", s1, if e.is_empty() { ".js".into() } else { e }), false),
            4 => (format!("||{}^*{}", h, s1), false),
            5 => (format!("||{}/*/{}", h, s2), false),
            6 => (format!("/{}[a-z0-9]*\\/{}/", s1, s2), true),
            7 => (format!("/\\/({}|{})\\./", s1, s2), true),
            _ => (format!("/{}/{}*", s1, s2), false),
        }
    } else {
        if r.chance(4) {
            // rarely seen but legal host spellings
            return (
                match r.below(5) {
                    0 => format!("||www.{}^", r.pick(DOMAINS)),
                    1 => "||пример.example^".to_string(),
                    2 => "||xn--e1afmkfd.example/ads".to_string(),
                    3 => "||192.168.1.10^".to_string(),
                    _ => format!("||{}:8080/{}", h, s1),
                },
                false,
            );
        }
        if hostwild && r.chance(3) {
            // scheme-only anchors (like `||*` rules only where both engines index the list the same way:
            // such a rule is indexed under the scheme token, which ws:// URLs it matches do not contain)
            return (pick_s(r, &["|ws://", "|wss://", "|https://", "|http://"]), false);
        }
        if r.chance(2) {
            // a very long pattern
            let mut long = format!("/{}/", s1);
            for k in 0..40 {
                long.push_str(&format!("{}{}-", r.pick(SEGS), k));
            }
            return (long, false);
        }
        if r.chance(6) {
            // literal text that is special in a regex: exercises escaping when such a rule is fused
            // or combined with wildcards
            let sp = *r.pick(&["\\d", "\\k", "+", "?", "(1)", "[1]", "{2}", ".", "\\"]);
            return (format!("/{}/{}{}", s1, s2, sp), false);
        }
        match r.below(if tiny { 13 } else { 10 }) {
            // pattern-less rules (options only) and single-character patterns
            10 => (String::new(), false),
            11 => ("*".to_string(), false),
            12 => (pick_s(r, &["x", "a", "/"]), false),
            0 => (format!("/{}/{}", s1, s2), false),
            1 => (format!("||{}^", h), false),
            2 => (format!("||{}/{}", h, s1), false),
            3 => (format!("|https://{}/", h), false),
            4 => (format!("{}{}|", s1, if e.is_empty() { ".gif".into() } else { e }), false),
            5 => (format!("/{}{}", s1, e), false),
            6 => (format!("-{}-", s1), false),
            7 => (format!("||{}/{}/{}|", h, s1, s2), false),
            8 => (s1, false),
            _ => (format!("/{}/", s1), false),
        }
    }
}

fn gen_domain_opt(r: &mut Rng) -> String {
    let mut parts: Vec<String> = vec![];
    let n = if r.chance(15) { r.range(3, 5) } else { r.range(1, 2) };
    for _ in 0..n {
        let neg = r.chance(30);
        let d = if r.chance(4) { "example.*".to_string() } else if r.chance(60) { pick_s(r, DOMAINS) } else { pick_s(r, HOSTS) };
        parts.push(format!("{}{}", if neg { "~" } else { "" }, d));
    }
    parts.dedup();
    format!("{}={}", if r.chance(20) { "from" } else { "domain" }, parts.join("|"))
}

pub fn gen_net_rule(r: &mut Rng, p: &Profile) -> NetRule {
    let (mut pat, complete) = gen_pattern_h(r, p.p_regexish, p.tiny_patterns, p.hostname_wildcards);
    let mut opts: Vec<String> = vec![];
    let mut exc = r.chance(25);
    // modifier (at most one)
    let mut modifier: u8 = 0; // 0 none, 1 redirect, 2 csp, 3 removeparam, 4 generichide
    let roll = r.below(100);
    if p.redirect && roll < 10 {
        modifier = 1;
    } else if p.csp && (10..18).contains(&roll) {
        modifier = 2;
    } else if p.removeparam && (18..26).contains(&roll) {
        modifier = 3;
    } else if p.generichide && (26..30).contains(&roll) {
        modifier = 4;
    }
    match modifier {
        1 => {
            let name = pick_s(r, REDIRECTS);
            let prio = match r.below(6) {
                0 => ":10".to_string(),
                1 => ":-1".to_string(),
                2 => ":5".to_string(),
                _ => String::new(),
            };
            let kind = if r.chance(50) { "redirect" } else { "redirect-rule" };
            opts.push(format!("{}={}{}", kind, name, prio));
        }
        2 => {
            if exc && r.chance(30) {
                opts.push("csp".to_string());
            } else {
                opts.push(format!("csp={}", r.pick(CSPS)));
            }
        }
        3 => {
            exc = false;
            if r.chance(50) {
                pat = String::new();
            }
            opts.push(format!("removeparam={}", r.pick(QKEYS)));
        }
        4 => {
            exc = true;
            opts.push(if r.chance(20) { "ghide".to_string() } else { "generichide".to_string() });
        }
        _ => {}
    }
    // type options (csp rules must not carry them; generichide commonly has none)
    if modifier != 2 && modifier != 4 && r.chance(45) {
        let n = r.range(1, 2);
        for _ in 0..n {
            let t = pick_s(r, TYPE_OPTS);
            if !opts.contains(&t) {
                opts.push(t);
            }
        }
    }
    if r.chance(25) {
        opts.push(pick_s(r, &["third-party", "~third-party", "1p", "3p", "first-party", "~first-party", "~3p", "~1p"]));
    }
    if r.chance(25) {
        opts.push(gen_domain_opt(r));
    }
    if !exc && modifier != 3 && r.chance(15) {
        opts.push("important".to_string());
    }
    if complete && r.chance(40) {
        opts.push("match-case".to_string());
    }
    let taggable = modifier == 0 || modifier == 2 || p.tag_on_modifiers;
    let tag = if taggable && r.chance(p.p_tag) {
        // rarely the degenerate but legal empty tag value (`$tag=`)
        Some(if r.chance(4) { String::new() } else { pick_s(r, TAGS) })
    } else {
        None
    };
    NetRule { exc, pat, opts, tag }
}

pub fn gen_cos_rule(r: &mut Rng, p: &Profile) -> String {
    let c = pick_s(r, CLASSES);
    let i = pick_s(r, IDS);
    let sel = match r.below(8) {
        0 => format!(".{}", c),
        1 => format!("#{}", i),
        2 => format!(".{} > .inner", c),
        3 => format!("#{} .{}", i, c),
        4 => format!("a[href^=\"http://{}\"]", r.pick(HOSTS)),
        5 => format!("div.{}", c),
        6 => format!(".{}\\:x", c),
        _ => format!(".{}-{}", c, i),
    };
    let hosts = |r: &mut Rng| -> String {
        let n = if r.chance(12) { r.range(3, 4) } else { r.range(1, 2) };
        let mut v: Vec<String> = vec![];
        for _ in 0..n {
            let base = match r.below(4) {
                0 => pick_s(r, HOSTS),
                1 => pick_s(r, DOMAINS),
                2 => format!("{}.*", r.pick(&["example", "tracker", "foo", "bar"])),
                _ => pick_s(r, HOSTS),
            };
            let neg = r.chance(20);
            v.push(format!("{}{}", if neg { "~" } else { "" }, base));
        }
        v.dedup();
        v.join(",")
    };
    match r.below(12) {
        0 | 1 | 2 => format!("##{}", sel),
        3 | 4 => format!("{}##{}", hosts(r), sel),
        5 => format!("{}#@#{}", hosts(r), sel),
        6 => format!("{}##{}:style({})", hosts(r), sel, r.pick(&["color: red", "color: red", "display: none !important", "display:none"])),
        7 => format!("{}##{}:remove()", hosts(r), sel),
        8 => format!("{}##div:has-text({})", hosts(r), c),
        9 => {
            let name = pick_s(r, &["set", "noop", "fnuser", "perm", "missing", "trusted", "usesperm", "usesperm", "dup"]);
            let arg = pick_s(r, &["a", "b.c", "1", "'q'", "'a, b'", "\"c d\"", "a\\, b", "x, y, z", "{}"]);
            if r.chance(30) {
                format!("{}##+js({})", hosts(r), name)
            } else {
                format!("{}##+js({}, {})", hosts(r), name, arg)
            }
        }
        10 => {
            if r.chance(40) {
                format!("{}#@#+js()", hosts(r))
            } else {
                let name = pick_s(r, &["set", "noop", "fnuser"]);
                let arg = pick_s(r, &["a", "b.c", "1"]);
                format!("{}#@#+js({}, {})", hosts(r), name, arg)
            }
        }
        _ => {
            if p.perms {
                format!("{}#@#{}:style(color: red)", hosts(r), sel)
            } else {
                format!("#@#{}", sel)
            }
        }
    }
}

pub fn standard_resources() -> Vec<ResSpec> {
    let mk = |name: &str, aliases: &[&str], kind: &str, content: &str, deps: &[&str], perm: u8| ResSpec {
        name: name.to_string(),
        aliases: aliases.iter().map(|s| s.to_string()).collect(),
        kind: kind.to_string(),
        content: content.to_string(),
        deps: deps.iter().map(|s| s.to_string()).collect(),
        perm,
    };
    vec![
        mk("noop.js", &["noopjs"], "js", "(function() { /* noop */ })();", &[], 0),
        mk("1x1.gif", &["1x1-transparent.gif"], "gif", "GIF89a", &[], 0),
        mk("noop.txt", &["nooptext"], "txt", "", &[], 0),
        mk("set.js", &["set-constant.js", "set"], "template", "window['{{1}}'] = '{{2}}';", &[], 0),
        mk("perm.js", &["perm"], "js", "document.cookie = '{{1}}';", &[], 1),
        mk("trusted.js", &["trusted"], "js", "function trusted(a) { return a; }", &["fnlib.fn"], 2),
        mk("fnlib.fn", &[], "fn", "function fnlib() { return 1; }", &["fndeep.fn"], 0),
        mk("fndeep.fn", &[], "fn", "function fndeep() { return 2; }", &[], 0),
        mk("fnuser.js", &["fnuser"], "js", "function fnuser(a, b) { fnlib(); }", &["fnlib.fn"], 0),
        mk("frame.html", &[], "html", "<html></html>", &[], 0),
        mk("permlib.fn", &[], "fn", "function permlib() { return 3; }", &[], 1),
        mk("usesperm.js", &["usesperm"], "js", "function usesperm(a) { permlib(); }", &["permlib.fn"], 0),
        // resources whose identifiers overlap with the ones above: adding them must be rejected as
        // a whole (no identifier of a rejected resource may stay registered)
        mk("alt-noop.js", &["noop-alt", "noopjs"], "js", "(function() { /* alt */ })();", &[], 0),
        mk("noop-alt", &[], "txt", "alt", &[], 0),
        mk("blank.gif", &["1x1-blank.gif", "1x1-transparent.gif", "blank"], "gif", "GIF89a-blank", &[], 0),
        mk("1x1-blank.gif", &["blank2"], "gif", "GIF89a-blank2", &[], 0),
        // second revisions under the same names (only one revision of a name can be stored at a time;
        // which one depends on the order of the resource list)
        mk("set.js", &["set-constant.js", "set"], "template", "self['{{1}}'] = \"{{2}}\";", &[], 0),
        mk("fnuser.js", &["fnuser"], "js", "function fnuser(a, b) { return fnlib() + 1; }", &["fnlib.fn"], 0),
        mk("noop.txt", &["nooptext"], "txt", "rev2", &[], 0),
        // a template that uses the same placeholder twice
        mk("dup.js", &["dup"], "template", "first('{{1}}'); second('{{1}}', '{{2}}');", &[], 0),
    ]
}

pub fn gen_url(r: &mut Rng) -> String {
    gen_url_t(r, false)
}

pub fn gen_url_t(r: &mut Rng, non_ascii: bool) -> String {
    let scheme = match r.below(20) {
        0..=12 => "https",
        13..=16 => "http",
        17 => "wss",
        18 => "ws",
        _ => "ftp",
    };
    let h = *r.pick(HOSTS);
    // unusual but legal authority shapes
    let authority = match r.below(40) {
        0 => format!("{}:8080", h),
        1 => h.to_uppercase(),
        2 => format!("user:pw@{}", h),
        3 => format!("{}.", h),
        4 => "192.168.1.10".to_string(),
        6 => format!("www.{}", h),
        7 => "пример.example".to_string(),
        8 => "[2001:db8::1]".to_string(),
        9 => format!("www.{}:8443", h),
        5 => format!("{}:443", h),
        _ => h.to_string(),
    };
    let mut s = format!("{}://{}", scheme, authority);
    // most paths are short; a few are long (many tokens, but below the tokenizer's buffer size)
    let nseg = if r.chance(3) { r.range(20, 45) } else { r.range(1, 3) };
    for _ in 0..nseg {
        s.push('/');
        let seg = *r.pick(SEGS);
        match r.below(8) {
            0 => s.push_str(&format!("{}-{}", seg, r.pick(SEGS))),
            1 => s.push_str(&format!("x-{}-y", seg)),
            2 => s.push_str(&seg.to_uppercase()),
            4 if r.chance(40) => s.push_str(&format!("{}%20{}", seg, r.pick(SEGS))),
            5 if r.chance(30) => s.push_str(&format!("{}.{}_{}", seg, r.pick(SEGS), r.pick(SEGS))),
            // a raw non-ASCII letter right after the segment: a separator for byte-mode regexes,
            // a word character for Unicode-mode ones
            3 if non_ascii && r.chance(50) => s.push_str(&format!("{}{}", seg, r.pick(&["é", "ü", "漢", "éa"]))),
            _ => s.push_str(seg),
        }
    }
    s.push_str(*r.pick(EXTS));
    if r.chance(35) {
        s.push('?');
        let n = r.range(1, 3);
        for i in 0..n {
            if i > 0 {
                s.push('&');
            }
            s.push_str(*r.pick(QKEYS));
            if r.chance(85) {
                s.push('=');
                s.push_str(*r.pick(QVALS));
            }
        }
        if r.chance(15) {
            s.push_str("#frag");
        }
    }
    s
}

pub fn gen_probe(r: &mut Rng) -> Probe {
    gen_probe_t(r, false)
}

pub fn gen_probe_t(r: &mut Rng, non_ascii: bool) -> Probe {
    let url = gen_url_t(r, non_ascii);
    // Requests without a source are not generated: whether a `domain=` rule is found for them
    // depends on which bucket the rule was indexed under (an index-completeness question, C01),
    // and that would leak into every history oracle. One fixed witness covers it (known finding).
    let source = match r.below(10) {
        0..=5 => format!("https://{}/", r.pick(HOSTS)),
        6..=7 => format!("https://www.{}/page", r.pick(DOMAINS)),
        _ => {
            // same host as the request -> first party
            let rest = url.splitn(2, "://").nth(1).unwrap_or("");
            let host = rest.split('/').next().unwrap_or("");
            format!("https://{}/", host)
        }
    };
    let rtype = pick_s(r, TYPES);
    Probe { url, source, rtype }
}

pub fn gen_world(seed: u64, p: &Profile) -> World {
    let mut r = Rng::stream(seed, "workload");
    // swarm: switch random features off for this run
    let mut p = p.clone();
    if r.chance(30) {
        p.redirect = false;
    }
    if r.chance(30) {
        p.csp = false;
    }
    if r.chance(30) {
        p.removeparam = false;
    }
    if r.chance(40) {
        p.badfilter = false;
    }
    if r.chance(30) {
        p.generichide = false;
    }
    let cosmetic = p.cosmetic && !r.chance(25);
    let n = r.range(p.n_rules.0, p.n_rules.1);
    let mut rules: Vec<Rule> = Vec::with_capacity(n);
    let list_perms: [u8; 3] = [0, 1, 3];
    while rules.len() < n {
        let perm = if p.perms { *r.pick(&list_perms) } else { 0 };
        if cosmetic && r.chance(25) {
            rules.push(Rule { spec: RuleSpec::Cos(gen_cos_rule(&mut r, &p)), perm });
            continue;
        }
        let nr = gen_net_rule(&mut r, &p);
        // near-twins: same pattern, different tag / exception-ness / options, so that buckets and
        // fusion groups are non-trivial and tagged rules have observable untagged neighbours
        if r.chance(30) {
            let mut twin = nr.clone();
            match r.below(5) {
                0 => {
                    let taggable = p.tag_on_modifiers
                        || !twin.opts.iter().any(|o| o.starts_with("redirect") || o.starts_with("removeparam") || o == "generichide" || o == "ghide");
                    twin.tag = if twin.tag.is_some() {
                        None
                    } else if p.p_tag > 0 && taggable {
                        Some(pick_s(&mut r, TAGS))
                    } else {
                        None
                    }
                }
                1 => {
                    if !twin.opts.iter().any(|o| o.starts_with("removeparam") || o == "generichide" || o == "ghide" || o == "important") {
                        twin.exc = !twin.exc
                    }
                }
                2 => {
                    let (pat, _complete) = gen_pattern_h(&mut r, p.p_regexish, p.tiny_patterns, p.hostname_wildcards);
                    if !twin.opts.iter().any(|o| o == "match-case") {
                        twin.pat = pat;
                    }
                }
                3 => {
                    if p.p_tag > 0 && twin.tag.is_some() {
                        twin.tag = Some(pick_s(&mut r, TAGS));
                    }
                }
                _ => {
                    twin.opts.retain(|o| !o.starts_with("domain=") && !o.starts_with("from="));
                }
            }
            rules.push(Rule { spec: RuleSpec::Net(twin), perm });
        }
        // sibling groups: same exception-ness, options and tag, different patterns of the same kind,
        // so that the optimizer has non-trivial groups to fuse
        if r.chance(30) && !nr.opts.iter().any(|o| o == "match-case" || o.starts_with("removeparam")) {
            let regexish = nr.pat.contains('*') || nr.pat.contains('^');
            let k = r.range(1, 3);
            for _ in 0..k {
                let mut sib = nr.clone();
                let (pat, complete) = gen_pattern_h(&mut r, if regexish { 100 } else { 0 }, p.tiny_patterns, p.hostname_wildcards);
                if complete {
                    continue;
                }
                sib.pat = pat;
                rules.push(Rule { spec: RuleSpec::Net(sib), perm });
            }
        }
        // a removeparam rule with the same pattern and options but another parameter name
        if nr.opts.iter().any(|o| o.starts_with("removeparam=")) && r.chance(45) {
            let mut tw = nr.clone();
            for o in tw.opts.iter_mut() {
                if o.starts_with("removeparam=") {
                    let cur = o["removeparam=".len()..].to_string();
                    let mut other = pick_s(&mut r, QKEYS);
                    if other == cur {
                        other = if cur == "q" { "ref".to_string() } else { "q".to_string() };
                    }
                    *o = format!("removeparam={}", other);
                }
            }
            rules.push(Rule { spec: RuleSpec::Net(tw), perm });
        }
        // the same rule again: an exact duplicate line, or another spelling of the same pattern
        if r.chance(6) && !nr.pat.is_empty() {
            let mut dup = nr.clone();
            if r.chance(50) && !nr.pat.starts_with('|') && !nr.pat.ends_with('|') && !(nr.pat.starts_with('/') && nr.pat.ends_with('/')) && !nr.pat.starts_with('*') {
                dup.pat = format!("*{}*", nr.pat);
            }
            rules.push(Rule { spec: RuleSpec::Net(dup), perm });
        }
        // derived siblings: the same rule with a longer pattern that contains the original one
        if r.chance(12) && !nr.pat.is_empty() && !nr.opts.iter().any(|o| o == "match-case" || o.starts_with("removeparam")) && !(nr.pat.starts_with('/') && nr.pat.ends_with('/') && nr.pat.len() > 1) {
            let mut sib = nr.clone();
            let (body, tail) = match nr.pat.strip_suffix('|') {
                Some(b) => (b.to_string(), "|"),
                None => (nr.pat.clone(), ""),
            };
            sib.pat = match r.below(3) {
                0 => format!("{}?{}={}{}", body, r.pick(QKEYS), "1", tail),
                1 => format!("{}x{}", body, tail),
                _ => format!("{}/{}{}", body, r.pick(SEGS), tail),
            };
            rules.push(Rule { spec: RuleSpec::Net(sib), perm });
        }
        if p.badfilter && r.chance(6) {
            let mut bf = nr.clone();
            bf.opts.push("badfilter".to_string());
            bf.tag = None;
            rules.push(Rule { spec: RuleSpec::Net(bf), perm });
        }
        rules.push(Rule { spec: RuleSpec::Net(nr), perm });
    }
    // occasionally one large group of rules with identical options in one bucket, with sizes around
    // powers of two (chunking / batching boundaries)
    if r.chance(4) {
        let wild = r.chance(35);
        let size = if wild && r.chance(40) { *r.pick(&[290usize, 330, 400]) } else { *r.pick(&[7usize, 8, 9, 31, 32, 33, 63, 64, 65, 66, 127, 128, 129, 130]) };
        let seg = pick_s(&mut r, SEGS);
        let opts: Vec<String> = if r.chance(50) { vec![] } else { vec![pick_s(&mut r, &["script", "image", "3p"])] };
        let exc = r.chance(20);
        for k in 0..size {
            let pat = if wild { format!("/{}/*zone{}-*.gif", seg, k) } else if k == 3 && r.chance(60) {
                // a member with regex-special text that still lands in the group's bucket (its only
                // indexable token is the shared one)
                format!("/{}/{}", seg, r.pick(&["\\d", "\\k", "(", "[a", "\\w+"]))
            } else { format!("/{}/u{:03}", seg, k) };
            rules.push(Rule { spec: RuleSpec::Net(NetRule { exc, pat, opts: opts.clone(), tag: None }), perm: 0 });
        }
        // sometimes a companion group in the same bucket: other options (another fusable group), so that
        // one bucket holds several groups of different sizes
        if wild && r.chance(60) {
            let opts2: Vec<String> = vec![pick_s(&mut r, &["font", "media", "xhr", "1p"])];
            let size2 = *r.pick(&[2usize, 5, 31, 33, 40, 63]);
            for k in 0..size2 {
                rules.push(Rule { spec: RuleSpec::Net(NetRule { exc, pat: format!("/{}/*slot{}-*.png", seg, k), opts: opts2.clone(), tag: None }), perm: 0 });
            }
        }
    }
    // very rarely a long list (parallel / chunked code paths of list handling)
    let huge = r.chance(5) && r.chance(25);
    if huge {
        let extra_n = 4090 + r.below(12);
        let mut pp = p.clone();
        pp.badfilter = false;
        for k in 0..extra_n {
            rules.push(Rule { spec: RuleSpec::Net(NetRule { exc: false, pat: format!("/bulk/{}/item{}", r.pick(SEGS), k), opts: vec![], tag: None }), perm: 0 });
        }
        let _ = pp;
        // one permission level for the whole list, so that it is handed over in one piece
        for x in rules.iter_mut() {
            x.perm = 0;
        }
    }
    // degenerate lists: nothing at all, cosmetic rules only, tagged network rules only
    match r.below(40) {
        0 => rules.clear(),
        1 => rules.retain(|x| !x.is_net()),
        2 => rules.retain(|x| x.tag().is_some()),
        _ => {}
    }
    r.shuffle(&mut rules);

    let mut extra = vec![];
    let mut next_prio: i32 = -2;
    for _ in 0..p.extra {
        let mut pp = p.clone();
        pp.badfilter = false;
        // a third of the rules added later are near copies of rules of the list: the same rule with
        // another (or no) tag, or with its domain list negated
        let nets: Vec<&NetRule> = rules.iter().filter_map(|x| if let RuleSpec::Net(n) = &x.spec { Some(n) } else { None }).filter(|n| !n.opts.iter().any(|o| o == "badfilter")).collect();
        if !nets.is_empty() && r.chance(33) {
            let mut tw = (*r.pick(&nets)).clone();
            let taggable = !tw.opts.iter().any(|o| o.starts_with("redirect") || o.starts_with("removeparam") || o == "generichide" || o == "ghide");
            match r.below(3) {
                0 if taggable && p.p_tag > 0 => tw.tag = Some(pick_s(&mut r, TAGS)),
                1 if taggable => tw.tag = None,
                _ => {
                    let mut changed = false;
                    for o in tw.opts.iter_mut() {
                        if let Some(v) = o.strip_prefix("domain=") {
                            if !v.contains('|') {
                                *o = if let Some(x) = v.strip_prefix('~') { format!("domain={}", x) } else { format!("domain=~{}", v) };
                                changed = true;
                            }
                        }
                    }
                    if !changed && taggable && p.p_tag > 0 {
                        tw.tag = Some(pick_s(&mut r, TAGS));
                    }
                }
            }
            extra.push(Rule { spec: RuleSpec::Net(tw), perm: 0 });
            continue;
        }
        extra.push(Rule { spec: RuleSpec::Net(gen_net_rule(&mut r, &pp)), perm: 0 });
    }

    // Redirect ties are resolved by index order, which the properties leave unspecified: give
    // every redirect / redirect-rule option of a world its own priority.
    for rule in rules.iter_mut().chain(extra.iter_mut()) {
        if let RuleSpec::Net(n) = &mut rule.spec {
            for o in n.opts.iter_mut() {
                if o.starts_with("redirect=") || o.starts_with("redirect-rule=") {
                    let base = o.split(':').next().unwrap_or("").to_string();
                    *o = format!("{}:{}", base, next_prio);
                    next_prio += 1;
                }
            }
        }
    }

    let nprobes = r.range(p.n_probes.0, p.n_probes.1);
    let mut probes: Vec<Probe> = (0..nprobes).map(|_| gen_probe_t(&mut r, p.non_ascii_urls)).collect();
    // rule-directed probes: URLs built from a rule's own pattern, so that long / anchored / derived
    // patterns have a request that matches them and not only their shorter neighbours
    {
        let mut directed = 0;
        let mut order: Vec<usize> = (0..rules.len()).collect();
        r.shuffle(&mut order);
        // the last lines of the list always get a probe of their own
        let tail: Vec<usize> = (rules.len().saturating_sub(3)..rules.len()).collect();
        let order: Vec<usize> = tail.into_iter().chain(order.into_iter()).collect();
        for i in order {
            if directed >= 14 {
                break;
            }
            if let RuleSpec::Net(n) = &rules[i].spec {
                if let Some(url) = url_for_pattern(&mut r, &n.pat) {
                    let mut pr = gen_probe(&mut r);
                    pr.url = url;
                    if r.chance(50) {
                        // a request type the rule's options accept, if it names one
                        for o in &n.opts {
                            let t = match o.as_str() {
                                "script" => "script",
                                "image" => "image",
                                "stylesheet" => "stylesheet",
                                "xhr" => "xmlhttprequest",
                                "subdocument" => "subdocument",
                                "websocket" => "websocket",
                                "document" => "document",
                                "font" => "font",
                                "other" => "other",
                                _ => continue,
                            };
                            pr.rtype = t.to_string();
                            break;
                        }
                    }
                    probes.push(pr);
                    directed += 1;
                }
            }
        }
    }
    // make sure document/subdocument probes exist for csp and removeparam
    for i in 0..probes.len() {
        if i % 5 == 0 {
            probes[i].rtype = if i % 10 == 0 { "document".into() } else { "subdocument".into() };
        }
    }
    let pages: Vec<String> = (0..r.range(3, 6))
        .map(|_| format!("https://{}/{}", r.pick(HOSTS), r.pick(SEGS)))
        .collect();
    let classids: Vec<ClassIds> = (0..r.range(2, 4))
        .map(|_| {
            let nc = r.range(1, 4);
            let ni = r.range(0, 3);
            ClassIds {
                // (also the compound names the selector shapes produce: `.c\:x` is the class `c:x`, `.c-i` the class `c-i`)
                classes: (0..nc)
                    .map(|_| {
                        let c = pick_s(&mut r, CLASSES);
                        match r.below(10) {
                            0 | 1 => format!("{}:x", c),
                            2 => format!("{}-{}", c, r.pick(IDS)),
                            _ => c,
                        }
                    })
                    .collect(),
                ids: (0..ni).map(|_| pick_s(&mut r, IDS)).collect(),
            }
        })
        .collect();

    let mut kr = Rng::stream(seed, "knobs");
    let policy = match kr.below(4) {
        0 => None,
        1 => Some((1, 0)),
        2 => Some((1_000_000_000, 30_000_000_000)),
        _ => Some((0, 1)),
    };
    let knobs = Knobs {
        optimize: kr.chance(50),
        debug: kr.chance(50),
        // (long lists are handed over in one piece, as a real list file would be)
        build_mode: if huge { 0 } else { kr.below(3) as u8 },
        alloc_policy: kr.below(5) as u8,
        alloc_seed: Rng::stream(seed, "alloc").next(),
        hash_key: Rng::stream(seed, "hashkey").next(),
        policy,
    };
    World {
        rules,
        extra,
        resources: standard_resources(),
        probes,
        pages,
        classids,
        tags: TAGS.iter().map(|s| s.to_string()).collect(),
        knobs,
    }
}


/// A URL that the pattern is meant to match (best effort; complete regexes are skipped).
pub fn url_for_pattern(r: &mut Rng, pat: &str) -> Option<String> {
    if pat.is_empty() || pat == "*" || (pat.len() > 1 && pat.starts_with('/') && pat.ends_with('/') && !pat[1..pat.len() - 1].chars().all(|c| c.is_ascii_alphanumeric() || c == '/')) {
        return None;
    }
    // (`\d` is literal text in a plain pattern; a digit there distinguishes literal from regex reading)
    let fill = |s: &str| -> String { s.replace('*', "x1").replace('^', "/").replace("\\d", "7").replace("\\w+", "abc") };
    let right = pat.ends_with('|');
    let core = pat.trim_end_matches('|');
    let url = if let Some(rest) = core.strip_prefix("||") {
        format!("https://{}", fill(rest))
    } else if let Some(rest) = core.strip_prefix('|') {
        fill(rest)
    } else {
        let h = *r.pick(HOSTS);
        let body = fill(core);
        if body.starts_with('/') {
            format!("https://{}{}", h, body)
        } else {
            format!("https://{}/{}/{}", h, r.pick(SEGS), body)
        }
    };
    if !url.contains("://") {
        return None;
    }
    Some(if right || r.chance(50) { url } else { format!("{}{}", url, r.pick(&["", ".js", "/x.gif", "?q=1"])) })
}
