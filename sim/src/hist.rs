//! History checks (C05, C06, C07, C08): per-property profiles, one simulated run, replay files.

use serde::{Deserialize, Serialize};

use crate::exec::*;
use crate::rng::{mix3, tag_of, Rng};
use crate::seams;
use crate::world::*;

pub fn parse_check(s: &str) -> Option<Check> {
    match s {
        "C05" => Some(Check::C05),
        "C06" => Some(Check::C06),
        "C07" => Some(Check::C07),
        "C08" => Some(Check::C08),
        _ => None,
    }
}

/// The profile and op mix of run `seed` of `check`; `blocker` says which driver it uses.
pub fn plan(check: Check, seed: u64) -> (Profile, OpMix) {
    let mut r = Rng::stream(seed, "plan");
    let base = Profile {
        n_rules: (12, 80),
        n_probes: (20, 36),
        p_tag: 35,
        p_regexish: 45,
        cosmetic: true,
        removeparam: true,
        redirect: true,
        csp: true,
        badfilter: true,
        generichide: true,
        perms: true,
        tag_on_modifiers: false,
        extra: 6,
        tiny_patterns: true,
        non_ascii_urls: false,
        hostname_wildcards: false,
    };
    let mix = OpMix { n_ops: (6, 40), blocker_driver: false, tags: 25, clock: 15, evict: 12, serial: 10, restart: 3, resources: 6, add_filter: 0, optimize: 0, queries: 30 };
    match check {
        Check::C06 => {
            if r.chance(35) {
                // Blocker driver: incremental add and explicit optimise
                (
                    Profile { badfilter: false, cosmetic: false, perms: false, extra: 14, ..base },
                    OpMix { blocker_driver: true, add_filter: 18, optimize: 8, serial: 0, restart: 0, ..mix },
                )
            } else {
                (base, mix)
            }
        }
        Check::C05 => {
            let p = Profile { p_tag: 30, p_regexish: 40, cosmetic: false, perms: false, extra: 10, non_ascii_urls: true, hostname_wildcards: true, ..base };
            if r.chance(50) {
                // (no non-ASCII URLs with add_filter: incremental and batch indexing choose buckets differently)
                (Profile { badfilter: false, non_ascii_urls: false, hostname_wildcards: false, ..p }, OpMix { blocker_driver: true, add_filter: 10, optimize: 14, serial: 0, restart: 0, tags: 20, ..mix })
            } else {
                (p, OpMix { serial: 0, restart: 0, ..mix })
            }
        }
        Check::C07 => {
            let p = Profile { p_tag: 60, n_rules: (10, 60), tiny_patterns: false, ..base };
            if r.chance(30) {
                // Blocker driver: tagged rules (also tagged $important / exception / csp ones) added one at a
                // time while tags are enabled, followed by further tag operations
                (
                    Profile { badfilter: false, cosmetic: false, perms: false, extra: 14, ..p },
                    OpMix { blocker_driver: true, tags: 40, add_filter: 22, optimize: 4, serial: 0, restart: 0, clock: 6, evict: 6, resources: 0, ..mix },
                )
            } else {
                (p, OpMix { tags: 40, serial: 12, restart: 5, clock: 8, evict: 8, resources: 2, ..mix })
            }
        }
        Check::C08 => (
            Profile { p_tag: 30, non_ascii_urls: true, hostname_wildcards: true, ..base },
            OpMix { tags: 18, serial: 25, restart: 15, clock: 5, evict: 5, resources: 5, queries: 25, ..mix },
        ),
    }
}

#[derive(Clone, Debug, Serialize, Deserialize)]
pub struct Trace {
    pub property: String,
    pub seed: u64,
    pub blocker: bool,
    pub world: World,
    pub ops: Vec<Op>,
    #[serde(default)]
    pub violation: Option<Violation>,
    #[serde(default)]
    pub note: String,
}

pub fn generate(check: Check, seed: u64) -> Trace {
    let (p, mix) = plan(check, seed);
    let mut w = gen_world(seed, &p);
    if check == Check::C05 && !mix.blocker_driver {
        // Engine(L, true) ~ Engine(L, false): the engine under test is the optimised one
        w.knobs.optimize = true;
    }
    if check == Check::C07 && w.knobs.policy.is_none() {
        w.knobs.policy = Some((1, 0));
    }
    let ops = gen_ops(seed, &w, &mix);
    Trace { property: check.id().to_string(), seed, blocker: mix.blocker_driver, world: w, ops, violation: None, note: String::new() }
}

pub struct RunOut {
    pub outcome: Outcome,
    pub alloc: seams::AllocStats,
}

/// Execute an explicit trace on a fresh thread: hash keys, allocator decisions and the clock are
/// functions of the trace's knobs only.
pub fn execute(check: Check, t: &Trace) -> RunOut {
    let t2 = t.clone();
    seams::hashkey_set(t.world.knobs.hash_key);
    let h = std::thread::Builder::new()
        .stack_size(32 << 20)
        .spawn(move || {
            set_quiet(true);
            seams::run_begin(t2.world.knobs.alloc_seed, seams::Policy::from_u8(t2.world.knobs.alloc_policy));
            let ex = Exec::new(&t2.world, check, t2.blocker);
            let o = ex.run(&t2.ops);
            drop(ex);
            let a = seams::run_end();
            RunOut { outcome: o, alloc: a }
        })
        .expect("spawn run thread");
    match h.join() {
        Ok(mut r) => {
            r.outcome.stats.alloc_fresh = r.alloc.fresh;
            r.outcome.stats.alloc_recycled = r.alloc.recycled;
            r.outcome.stats.alloc_digest = r.alloc.digest;
            r
        }
        Err(_) => RunOut {
            outcome: Outcome {
                violation: Some(Violation {
                    property: check.id().into(),
                    oracle: "no-panic".into(),
                    step: -3,
                    op: "run thread".into(),
                    what: "panic".into(),
                    got: "run thread panicked outside an operation".into(),
                    want: "no panic".into(),
                }),
                stats: RunStats::default(),
                digest: 0,
            },
            alloc: Default::default(),
        },
    }
}

pub fn run_seed(check: Check, base_seed: u64, idx: u64) -> (Trace, RunOut) {
    let s = mix3(base_seed, tag_of(check.id()), idx);
    let t = generate(check, s);
    let o = execute(check, &t);
    (t, o)
}

/// A digest of the *shape* of a history (operation kinds + world shape), for distinctness.
pub fn shape_digest(t: &Trace) -> u64 {
    let mut d = crate::rng::Digest::new();
    for o in &t.ops {
        d.str(o.kind());
    }
    d.u64(t.world.rules.len() as u64);
    d.u64(t.world.probes.len() as u64);
    d.u64(t.world.knobs.optimize as u64);
    d.u64(t.world.knobs.debug as u64);
    d.u64(t.world.knobs.build_mode as u64);
    d.u64(t.world.knobs.alloc_policy as u64);
    d.u64(t.blocker as u64);
    d.0
}
