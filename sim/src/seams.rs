//! Simulator-owned seams that need no change in /repo:
//!
//! * S2/S5 `SimAlloc`: the global allocator. While the harness is inside a call that
//!   (re)allocates rules, requests of the `ArcInner<NetworkFilter>` size class are served from a
//!   region in which *which freed block is handed out next* is a seeded decision. It also keeps
//!   per-thread accounting (largest request, peak live bytes) for the resource oracle of C10.
//! * S3 `getrandom`: std's `RandomState` keys come from the libc symbol `getrandom`, resolved
//!   weakly "to allow interposition". The harness exports its own, so HashMap iteration order
//!   is a function of the run's `hashkey` stream.
//!
//! One simulated run is in flight per process, each on a fresh thread.

use std::alloc::{GlobalAlloc, Layout, System};
use std::cell::Cell;
use std::sync::atomic::{AtomicBool, AtomicU64, AtomicU8, AtomicUsize, Ordering};

pub struct SimAlloc;

const MAX_FREE: usize = 1 << 16;
const REGION_BLOCKS: usize = 1 << 18; // x 224 B = 56 MiB of address space, touched lazily
pub const HARD_CAP: usize = 1 << 30; // a single request above this is refused while accounting

#[derive(Clone, Copy, Debug, PartialEq, Eq)]
#[repr(u8)]
pub enum Policy {
    Lifo = 0,
    Fifo = 1,
    Uniform = 2,
    Never = 3,
    Mixed = 4,
}
impl Policy {
    pub fn from_u8(v: u8) -> Policy {
        match v % 5 {
            0 => Policy::Lifo,
            1 => Policy::Fifo,
            2 => Policy::Uniform,
            3 => Policy::Never,
            _ => Policy::Mixed,
        }
    }
    pub fn name(self) -> &'static str {
        match self {
            Policy::Lifo => "lifo",
            Policy::Fifo => "fifo",
            Policy::Uniform => "uniform",
            Policy::Never => "never",
            Policy::Mixed => "mixed",
        }
    }
}

struct Region {
    base: usize,
    stride: usize,
    class: usize,
    bump: usize,
    epoch: usize,
    /// blocks below this index may still be referenced by something that outlived its run
    /// (e.g. a process-wide cache in the code under test): they are never handed out again
    floor: usize,
    live: usize,
    nfree: usize,
    free: [u32; MAX_FREE],
    rng: u64,
    policy: u8,
    fresh: u64,
    recycled: u64,
    digest: u64,
}

static LOCK: AtomicBool = AtomicBool::new(false);
static mut REGION: Region = Region {
    base: 0,
    stride: 0,
    class: 0,
    bump: 0,
    epoch: 0,
    floor: 0,
    live: 0,
    nfree: 0,
    free: [0; MAX_FREE],
    rng: 0,
    policy: 0,
    fresh: 0,
    recycled: 0,
    digest: 0,
};
static REGION_BASE: AtomicUsize = AtomicUsize::new(0);
static REGION_END: AtomicUsize = AtomicUsize::new(0);
static CLASS: AtomicUsize = AtomicUsize::new(usize::MAX);

thread_local! {
    static TRACK: Cell<bool> = const { Cell::new(false) };
    static ACCOUNT: Cell<bool> = const { Cell::new(false) };
    static ACC_LIVE: Cell<isize> = const { Cell::new(0) };
    static ACC_PEAK: Cell<isize> = const { Cell::new(0) };
    static ACC_MAXREQ: Cell<usize> = const { Cell::new(0) };
    static ACC_REFUSED: Cell<usize> = const { Cell::new(0) };
}

fn lock() {
    while LOCK
        .compare_exchange_weak(false, true, Ordering::Acquire, Ordering::Relaxed)
        .is_err()
    {
        std::hint::spin_loop();
    }
}
fn unlock() {
    LOCK.store(false, Ordering::Release);
}

#[inline]
fn sm(z: &mut u64) -> u64 {
    *z = z.wrapping_add(0x9E37_79B9_7F4A_7C15);
    let mut x = *z;
    x = (x ^ (x >> 30)).wrapping_mul(0xBF58_476D_1CE4_E5B9);
    x = (x ^ (x >> 27)).wrapping_mul(0x94D0_49BB_1331_11EB);
    x ^ (x >> 31)
}

#[allow(static_mut_refs)]
unsafe fn region_alloc() -> *mut u8 {
    lock();
    let r = &mut REGION;
    let mut idx: Option<usize> = None;
    if r.nfree > 0 {
        let pol = Policy::from_u8(r.policy);
        let take = match pol {
            Policy::Never => None,
            Policy::Lifo => Some(r.nfree - 1),
            Policy::Fifo => Some(0),
            Policy::Uniform => Some((sm(&mut r.rng) >> 11) as usize % r.nfree),
            Policy::Mixed => {
                if sm(&mut r.rng) & 1 == 0 {
                    Some((sm(&mut r.rng) >> 11) as usize % r.nfree)
                } else {
                    None
                }
            }
        };
        if let Some(pos) = take {
            let b = r.free[pos] as usize;
            // keep order for FIFO/LIFO semantics
            for i in pos..r.nfree - 1 {
                r.free[i] = r.free[i + 1];
            }
            r.nfree -= 1;
            r.recycled += 1;
            idx = Some(b);
        }
    }
    let idx = match idx {
        Some(i) => i,
        None => {
            if r.bump >= REGION_BLOCKS {
                // the address space of the region is used up (a burst of tens of thousands of rebuilds
                // under a policy that avoids reuse): fall back to the oldest freed block rather than to
                // the system allocator, whose addresses are not a function of the seed
                if r.nfree == 0 {
                    unlock();
                    return std::ptr::null_mut();
                }
                let b = r.free[0] as usize;
                for i in 0..r.nfree - 1 {
                    r.free[i] = r.free[i + 1];
                }
                r.nfree -= 1;
                r.recycled += 1;
                b
            } else {
                let i = r.bump;
                r.bump += 1;
                r.fresh += 1;
                i
            }
        }
    };
    r.live += 1;
    // offsets relative to the first block of this run: absolute positions are never compared
    r.digest = (r.digest ^ (idx.wrapping_sub(r.epoch)) as u64).wrapping_mul(0x1000_0000_01b3);
    let p = (r.base + idx * r.stride) as *mut u8;
    unlock();
    p
}

#[allow(static_mut_refs)]
unsafe fn region_free(p: *mut u8) {
    lock();
    let r = &mut REGION;
    let idx = (p as usize - r.base) / r.stride;
    if idx < r.epoch {
        // a block of an earlier run, freed late: it stays retired
        unlock();
        return;
    }
    if r.nfree < MAX_FREE {
        r.free[r.nfree] = idx as u32;
        r.nfree += 1;
    }
    r.live = r.live.saturating_sub(1);
    unlock();
}

#[inline]
fn in_region(p: *mut u8) -> bool {
    let a = p as usize;
    a >= REGION_BASE.load(Ordering::Relaxed) && a < REGION_END.load(Ordering::Relaxed)
}

#[inline]
fn acct_alloc(size: usize) -> bool {
    // returns false if the request must be refused
    let on = ACCOUNT.try_with(|a| a.get()).unwrap_or(false);
    if on {
        let _ = ACC_MAXREQ.try_with(|m| {
            if size > m.get() {
                m.set(size)
            }
        });
        if size > HARD_CAP {
            let _ = ACC_REFUSED.try_with(|m| m.set(m.get() + 1));
            return false;
        }
        let _ = ACC_LIVE.try_with(|l| {
            let v = l.get() + size as isize;
            l.set(v);
            let _ = ACC_PEAK.try_with(|p| {
                if v > p.get() {
                    p.set(v)
                }
            });
        });
    }
    true
}
#[inline]
fn acct_free(size: usize) {
    let on = ACCOUNT.try_with(|a| a.get()).unwrap_or(false);
    if on {
        let _ = ACC_LIVE.try_with(|l| l.set(l.get() - size as isize));
    }
}

// ---- debug facility: which allocations of a run survive it (lazily initialised statics)?
pub static LEAK_ON: AtomicBool = AtomicBool::new(false);
thread_local! { static IN_LEAK: Cell<bool> = const { Cell::new(false) }; }
static mut LEAKS: Option<std::collections::HashMap<usize, (usize, std::backtrace::Backtrace)>> = None;
#[allow(static_mut_refs)]
fn leak_alloc(p: *mut u8, size: usize) {
    if !LEAK_ON.load(Ordering::Relaxed) || p.is_null() {
        return;
    }
    if IN_LEAK.try_with(|c| c.replace(true)).unwrap_or(true) {
        return;
    }
    lock();
    unsafe {
        LEAKS.get_or_insert_with(Default::default).insert(p as usize, (size, std::backtrace::Backtrace::force_capture()));
    }
    unlock();
    let _ = IN_LEAK.try_with(|c| c.set(false));
}
#[allow(static_mut_refs)]
fn leak_free(p: *mut u8) {
    if !LEAK_ON.load(Ordering::Relaxed) {
        return;
    }
    if IN_LEAK.try_with(|c| c.replace(true)).unwrap_or(true) {
        return;
    }
    lock();
    unsafe {
        if let Some(m) = LEAKS.as_mut() {
            m.remove(&(p as usize));
        }
    }
    unlock();
    let _ = IN_LEAK.try_with(|c| c.set(false));
}
#[allow(static_mut_refs)]
pub fn leak_report() {
    LEAK_ON.store(false, Ordering::SeqCst);
    unsafe {
        if let Some(m) = LEAKS.take() {
            eprintln!("{} surviving allocations", m.len());
            for (_, (size, bt)) in m.iter().take(40) {
                eprintln!("--- {} bytes\n{}", size, bt);
            }
        }
    }
}

pub static TRACE_ON: AtomicBool = AtomicBool::new(false);
pub static TRACE_BT_AT: AtomicUsize = AtomicUsize::new(usize::MAX);
static TRACE_N: AtomicUsize = AtomicUsize::new(0);
static mut TRACE_BUF: [i32; 1 << 16] = [0; 1 << 16];
#[allow(static_mut_refs)]
fn trace_event(v: i32) {
    if TRACE_ON.load(Ordering::Relaxed) {
        let n = TRACE_N.fetch_add(1, Ordering::Relaxed);
        if n < (1 << 16) {
            unsafe { TRACE_BUF[n] = v };
        }
        if v > 0 && n == TRACE_BT_AT.load(Ordering::Relaxed) {
            let prev = TRACK.with(|t| t.replace(false));
            let bt = std::backtrace::Backtrace::force_capture();
            eprintln!("=== backtrace at region event {}:\n{}", n, bt);
            TRACK.with(|t| t.set(prev));
        }
    }
}
#[allow(static_mut_refs)]
pub fn trace_take() -> Vec<i32> {
    let n = TRACE_N.swap(0, Ordering::Relaxed).min(1 << 16);
    unsafe { TRACE_BUF[..n].to_vec() }
}

unsafe impl GlobalAlloc for SimAlloc {
    unsafe fn alloc(&self, layout: Layout) -> *mut u8 {
        if layout.size() == CLASS.load(Ordering::Relaxed)
            && layout.align() <= 16
            && TRACK.try_with(|t| t.get()).unwrap_or(false)
        {
            let p = region_alloc();
            if !p.is_null() {
                trace_event(1 + ((p as usize - REGION_BASE.load(Ordering::Relaxed)) / 224) as i32);
                return p;
            }
        }
        if !acct_alloc(layout.size()) {
            return std::ptr::null_mut();
        }
        let p = System.alloc(layout);
        leak_alloc(p, layout.size());
        p
    }
    unsafe fn dealloc(&self, ptr: *mut u8, layout: Layout) {
        if in_region(ptr) {
            trace_event(-1 - ((ptr as usize - REGION_BASE.load(Ordering::Relaxed)) / 224) as i32);
            region_free(ptr);
            return;
        }
        acct_free(layout.size());
        leak_free(ptr);
        System.dealloc(ptr, layout)
    }
    unsafe fn alloc_zeroed(&self, layout: Layout) -> *mut u8 {
        if layout.size() == CLASS.load(Ordering::Relaxed)
            && layout.align() <= 16
            && TRACK.try_with(|t| t.get()).unwrap_or(false)
        {
            let p = self.alloc(layout);
            if !p.is_null() {
                std::ptr::write_bytes(p, 0, layout.size());
            }
            return p;
        }
        if !acct_alloc(layout.size()) {
            return std::ptr::null_mut();
        }
        let p = System.alloc_zeroed(layout);
        leak_alloc(p, layout.size());
        p
    }
    unsafe fn realloc(&self, ptr: *mut u8, layout: Layout, new_size: usize) -> *mut u8 {
        let class = CLASS.load(Ordering::Relaxed);
        if in_region(ptr) || (new_size == class && TRACK.try_with(|t| t.get()).unwrap_or(false)) {
            // generic path through our own alloc/dealloc
            let new_layout = Layout::from_size_align_unchecked(new_size, layout.align());
            let np = self.alloc(new_layout);
            if !np.is_null() {
                std::ptr::copy_nonoverlapping(ptr, np, layout.size().min(new_size));
                self.dealloc(ptr, layout);
            }
            return np;
        }
        if !acct_alloc(new_size) {
            return std::ptr::null_mut();
        }
        leak_free(ptr);
        let np = System.realloc(ptr, layout, new_size);
        leak_alloc(np, new_size);
        if !np.is_null() {
            acct_free(layout.size());
        } else {
            acct_free(new_size);
        }
        np
    }
}

/// Must be called once at process start, before any run.
#[allow(static_mut_refs)]
pub fn init(class: usize) {
    let stride = (class + 15) & !15;
    let bytes = REGION_BLOCKS * stride;
    let base = unsafe { System.alloc(Layout::from_size_align(bytes, 4096).unwrap()) } as usize;
    assert!(base != 0, "region allocation failed");
    unsafe {
        lock();
        REGION.base = base;
        REGION.stride = stride;
        REGION.class = class;
        unlock();
    }
    REGION_BASE.store(base, Ordering::SeqCst);
    REGION_END.store(base + bytes, Ordering::SeqCst);
    CLASS.store(class, Ordering::SeqCst);
}

#[derive(Clone, Copy, Debug, Default)]
pub struct AllocStats {
    pub fresh: u64,
    pub recycled: u64,
    pub digest: u64,
    pub abandoned: u64,
}

#[allow(static_mut_refs)]
pub fn run_begin(seed: u64, policy: Policy) {
    unsafe {
        lock();
        let r = &mut REGION;
        if r.live != 0 {
            // something of the previous run is still alive (leaked, or held by process-wide state of
            // the code under test): retire everything handed out so far
            r.floor = r.bump;
        }
        // relative offsets restart right above the retired blocks
        r.bump = r.floor;
        r.epoch = r.bump;
        r.live = 0;
        r.nfree = 0;
        r.rng = seed;
        r.policy = policy as u8;
        r.fresh = 0;
        r.recycled = 0;
        r.digest = 0xcbf2_9ce4_8422_2325;
        unlock();
    }
}

#[allow(static_mut_refs)]
pub fn run_end() -> AllocStats {
    unsafe {
        lock();
        let r = &mut REGION;
        let s = AllocStats { fresh: r.fresh, recycled: r.recycled, digest: r.digest, abandoned: r.live as u64 };
        r.nfree = 0;
        unlock();
        s
    }
}

/// Run `f` with the rule size class routed to the simulated region.
pub fn track<R>(f: impl FnOnce() -> R) -> R {
    struct Reset(bool);
    impl Drop for Reset {
        fn drop(&mut self) {
            TRACK.with(|t| t.set(self.0));
        }
    }
    let prev = TRACK.with(|t| t.replace(true));
    let _r = Reset(prev);
    f()
}

#[derive(Clone, Copy, Debug, Default)]
pub struct Acct {
    pub max_request: usize,
    pub peak_live: isize,
    pub refused: usize,
}

/// Run `f` with allocation accounting on this thread.
pub fn account<R>(f: impl FnOnce() -> R) -> (R, Acct) {
    struct Reset;
    impl Drop for Reset {
        fn drop(&mut self) {
            ACCOUNT.with(|a| a.set(false));
        }
    }
    ACC_LIVE.with(|c| c.set(0));
    ACC_PEAK.with(|c| c.set(0));
    ACC_MAXREQ.with(|c| c.set(0));
    ACC_REFUSED.with(|c| c.set(0));
    ACCOUNT.with(|a| a.set(true));
    let _r = Reset;
    let out = f();
    ACCOUNT.with(|a| a.set(false));
    let a = Acct {
        max_request: ACC_MAXREQ.with(|c| c.get()),
        peak_live: ACC_PEAK.with(|c| c.get()),
        refused: ACC_REFUSED.with(|c| c.get()),
    };
    (out, a)
}

// ---------------------------------------------------------------------------------------------
// S3: hash seeds
// ---------------------------------------------------------------------------------------------

static HK_MODE: AtomicU8 = AtomicU8::new(0); // 0 = simulated, 1 = pass through to the kernel
static HK_SEED: AtomicU64 = AtomicU64::new(0x1234_5678_9abc_def0);
static HK_CTR: AtomicU64 = AtomicU64::new(0);
static HK_CALLS: AtomicU64 = AtomicU64::new(0);

pub fn hashkey_set(seed: u64) {
    HK_MODE.store(0, Ordering::SeqCst);
    HK_SEED.store(seed, Ordering::SeqCst);
    HK_CTR.store(0, Ordering::SeqCst);
}
pub fn hashkey_passthrough() {
    HK_MODE.store(1, Ordering::SeqCst);
}
pub fn hashkey_calls() -> u64 {
    HK_CALLS.load(Ordering::SeqCst)
}

/// Interposed libc `getrandom`.
///
/// # Safety
/// `buf` must be valid for `len` bytes, as for the libc function.
#[no_mangle]
pub unsafe extern "C" fn getrandom(buf: *mut libc::c_void, len: usize, flags: libc::c_uint) -> isize {
    HK_CALLS.fetch_add(1, Ordering::SeqCst);
    if HK_MODE.load(Ordering::SeqCst) == 1 {
        return libc::syscall(libc::SYS_getrandom, buf, len, flags) as isize;
    }
    let seed = HK_SEED.load(Ordering::SeqCst);
    let out = buf as *mut u8;
    let mut i = 0usize;
    while i < len {
        let c = HK_CTR.fetch_add(1, Ordering::SeqCst);
        let mut z = seed ^ c.wrapping_mul(0xD6E8_FEB8_6659_FD93);
        let w = sm(&mut z).to_le_bytes();
        let n = (len - i).min(8);
        std::ptr::copy_nonoverlapping(w.as_ptr(), out.add(i), n);
        i += n;
    }
    len as isize
}
