//! One integer decides everything: splitmix64-derived independent streams.

#[derive(Clone, Debug)]
pub struct Rng {
    s: u64,
}

pub fn splitmix(mut z: u64) -> u64 {
    z = z.wrapping_add(0x9E37_79B9_7F4A_7C15);
    z = (z ^ (z >> 30)).wrapping_mul(0xBF58_476D_1CE4_E5B9);
    z = (z ^ (z >> 27)).wrapping_mul(0x94D0_49BB_1331_11EB);
    z ^ (z >> 31)
}

/// Mix a base seed with a property tag and a run index.
pub fn mix3(seed: u64, tag: u64, idx: u64) -> u64 {
    splitmix(splitmix(splitmix(seed) ^ tag.wrapping_mul(0xA24B_AED4_963E_E407)) ^ idx.wrapping_mul(0x9FB2_1C65_1E98_DF25))
}

pub fn tag_of(name: &str) -> u64 {
    let mut h: u64 = 0xcbf2_9ce4_8422_2325;
    for b in name.bytes() {
        h ^= b as u64;
        h = h.wrapping_mul(0x1000_0000_01b3);
    }
    h
}

impl Rng {
    pub fn new(seed: u64) -> Self {
        Rng { s: splitmix(seed ^ 0x5151_5151_5151_5151) }
    }
    /// Independent named sub-stream.
    pub fn stream(seed: u64, name: &str) -> Self {
        Rng::new(splitmix(seed) ^ tag_of(name))
    }
    pub fn next(&mut self) -> u64 {
        self.s = self.s.wrapping_add(0x9E37_79B9_7F4A_7C15);
        let mut z = self.s;
        z = (z ^ (z >> 30)).wrapping_mul(0xBF58_476D_1CE4_E5B9);
        z = (z ^ (z >> 27)).wrapping_mul(0x94D0_49BB_1331_11EB);
        z ^ (z >> 31)
    }
    /// Uniform in 0..n (n > 0).
    pub fn below(&mut self, n: usize) -> usize {
        debug_assert!(n > 0);
        ((self.next() >> 11) % (n as u64)) as usize
    }
    pub fn range(&mut self, lo: usize, hi_incl: usize) -> usize {
        lo + self.below(hi_incl - lo + 1)
    }
    /// True with probability pct/100.
    pub fn chance(&mut self, pct: u32) -> bool {
        (self.next() >> 11) % 100 < pct as u64
    }
    pub fn pick<'a, T>(&mut self, xs: &'a [T]) -> &'a T {
        &xs[self.below(xs.len())]
    }
    pub fn shuffle<T>(&mut self, xs: &mut [T]) {
        for i in (1..xs.len()).rev() {
            let j = self.below(i + 1);
            xs.swap(i, j);
        }
    }
}

/// FNV-1a 64 digest used for event logs / distinctness (not security relevant).
#[derive(Clone, Copy)]
pub struct Digest(pub u64);
impl Digest {
    pub fn new() -> Self {
        Digest(0xcbf2_9ce4_8422_2325)
    }
    pub fn bytes(&mut self, b: &[u8]) {
        for x in b {
            self.0 ^= *x as u64;
            self.0 = self.0.wrapping_mul(0x1000_0000_01b3);
        }
        // length/terminator so that ("ab","c") != ("a","bc")
        self.0 ^= 0xff;
        self.0 = self.0.wrapping_mul(0x1000_0000_01b3);
    }
    pub fn str(&mut self, s: &str) {
        self.bytes(s.as_bytes())
    }
    pub fn u64(&mut self, v: u64) {
        self.bytes(&v.to_le_bytes())
    }
}
