//! Shrinks an explicit failing trace (not the seed) while the same violation class persists.

use crate::exec::*;
use crate::hist::{execute, Trace};
use crate::world::*;

pub struct MinStats {
    pub executions: u64,
}

pub type RunFn<'a> = &'a dyn Fn(&Trace) -> Option<Violation>;

struct Ctx<'a> {
    run: RunFn<'a>,
}
#[derive(Clone, Copy)]
struct CheckRef<'a>(&'a Ctx<'a>);

fn fails_same(check: CheckRef, t: &Trace, class: &(String, String, String), n: &mut u64) -> Option<Violation> {
    *n += 1;
    match (check.0.run)(t) {
        Some(v) if &v.class() == class => Some(v),
        _ => None,
    }
}

pub fn minimize(check: Check, t0: &Trace, v0: &Violation) -> (Trace, Violation, MinStats) {
    let f = move |t: &Trace| execute(check, t).outcome.violation;
    minimize_with(&f, t0, v0)
}

fn remap_probe(op: &Op, keep: usize) -> Option<Op> {
    Some(match op {
        Op::Check(i) => {
            if *i == keep {
                Op::Check(0)
            } else {
                return None;
            }
        }
        Op::CheckSubset(i, a, b) => {
            if *i == keep {
                Op::CheckSubset(0, *a, *b)
            } else {
                return None;
            }
        }
        Op::Csp(i) => {
            if *i == keep {
                Op::Csp(0)
            } else {
                return None;
            }
        }
        o => o.clone(),
    })
}

fn probe_index(what: &str) -> Option<usize> {
    let p = what.find("probe#")?;
    let rest = &what[p + 6..];
    let end = rest.find(|c: char| !c.is_ascii_digit()).unwrap_or(rest.len());
    rest[..end].parse().ok()
}

pub fn minimize_with(run: RunFn, t0: &Trace, v0: &Violation) -> (Trace, Violation, MinStats) {
    let ctx = Ctx { run };
    let check = CheckRef(&ctx);
    let class = v0.class();
    let mut n = 0u64;
    let mut best = t0.clone();
    let mut bestv = v0.clone();

    // 1. cut everything after the failing step
    if v0.step >= 1 {
        let cut = (v0.step as usize - 1 + 1).min(best.ops.len());
        let mut c = best.clone();
        c.ops.truncate(cut);
        if let Some(v) = fails_same(check, &c, &class, &mut n) {
            best = c;
            bestv = v;
        }
    }
    let mut progress = true;
    let mut rounds = 0;
    while progress && rounds < 4 {
        progress = false;
        rounds += 1;
        // 2. drop operations, from the end
        let mut i = best.ops.len();
        while i > 0 {
            i -= 1;
            let mut c = best.clone();
            c.ops.remove(i);
            if let Some(v) = fails_same(check, &c, &class, &mut n) {
                best = c;
                bestv = v;
                progress = true;
            }
        }
        // 3. drop rules: halves, quarters, ..., singles
        let mut chunk = (best.world.rules.len() / 2).max(1);
        loop {
            let mut i = 0;
            while i < best.world.rules.len() {
                let mut c = best.clone();
                let end = (i + chunk).min(c.world.rules.len());
                c.world.rules.drain(i..end);
                if let Some(v) = fails_same(check, &c, &class, &mut n) {
                    best = c;
                    bestv = v;
                    progress = true;
                } else {
                    i += chunk;
                }
            }
            if chunk == 1 {
                break;
            }
            chunk = (chunk / 2).max(1);
        }
        // 4. keep only the failing probe
        if let Some(pi) = probe_index(&bestv.what) {
            if best.world.probes.len() > 1 && pi < best.world.probes.len() {
                let mut c = best.clone();
                c.world.probes = vec![best.world.probes[pi].clone()];
                c.ops = best.ops.iter().filter_map(|o| remap_probe(o, pi)).collect();
                if let Some(v) = fails_same(check, &c, &class, &mut n) {
                    best = c;
                    bestv = v;
                    progress = true;
                }
            }
        }
        // 5. simplify knobs
        for k in 0..6 {
            let mut c = best.clone();
            match k {
                0 => c.world.knobs.build_mode = 0,
                1 => c.world.knobs.policy = None,
                2 => c.world.knobs.alloc_policy = 3,
                3 => c.world.knobs.alloc_policy = 0,
                4 => c.world.knobs.debug = true,
                _ => c.world.knobs.optimize = false,
            }
            if c.world.knobs == best.world.knobs {
                continue;
            }
            if let Some(v) = fails_same(check, &c, &class, &mut n) {
                best = c;
                bestv = v;
                progress = true;
            }
        }
        // 6. simplify rules: drop options and tags
        for ri in 0..best.world.rules.len() {
            if let RuleSpec::Net(nr) = best.world.rules[ri].spec.clone() {
                let mut oi = nr.opts.len();
                while oi > 0 {
                    oi -= 1;
                    let mut c = best.clone();
                    if let RuleSpec::Net(x) = &mut c.world.rules[ri].spec {
                        if oi < x.opts.len() {
                            x.opts.remove(oi);
                        }
                    }
                    if let Some(v) = fails_same(check, &c, &class, &mut n) {
                        best = c;
                        bestv = v;
                        progress = true;
                    }
                }
                if nr.tag.is_some() {
                    let mut c = best.clone();
                    if let RuleSpec::Net(x) = &mut c.world.rules[ri].spec {
                        x.tag = None;
                    }
                    if let Some(v) = fails_same(check, &c, &class, &mut n) {
                        best = c;
                        bestv = v;
                        progress = true;
                    }
                }
            }
            if best.world.rules[ri].perm != 0 {
                let mut c = best.clone();
                c.world.rules[ri].perm = 0;
                if let Some(v) = fails_same(check, &c, &class, &mut n) {
                    best = c;
                    bestv = v;
                    progress = true;
                }
            }
        }
        // 7. drop unused extras, pages, class/id sets, resources
        {
            let used: Vec<usize> = best.ops.iter().filter_map(|o| if let Op::AddFilter(i) = o { Some(*i) } else { None }).collect();
            if best.world.extra.len() > used.len() {
                let mut c = best.clone();
                let mut map = std::collections::BTreeMap::new();
                let mut ne = vec![];
                for u in &used {
                    if !map.contains_key(u) {
                        map.insert(*u, ne.len());
                        ne.push(best.world.extra[*u].clone());
                    }
                }
                c.world.extra = ne;
                for o in c.ops.iter_mut() {
                    if let Op::AddFilter(i) = o {
                        *i = map[i];
                    }
                }
                if let Some(v) = fails_same(check, &c, &class, &mut n) {
                    best = c;
                    bestv = v;
                    progress = true;
                }
            }
            let mut ri = best.world.resources.len();
            while ri > 0 {
                ri -= 1;
                let mut c = best.clone();
                c.world.resources.remove(ri);
                let mut ok = true;
                for o in c.ops.iter_mut() {
                    match o {
                        Op::AddResource(i) => {
                            if *i == ri {
                                ok = false;
                            } else if *i > ri {
                                *i -= 1;
                            }
                        }
                        Op::UseResources(v) => {
                            v.retain(|i| *i != ri);
                            for i in v.iter_mut() {
                                if *i > ri {
                                    *i -= 1;
                                }
                            }
                        }
                        _ => {}
                    }
                }
                if !ok {
                    continue;
                }
                if let Some(v) = fails_same(check, &c, &class, &mut n) {
                    best = c;
                    bestv = v;
                    progress = true;
                }
            }
        }
    }
    best.violation = Some(bestv.clone());
    (best, bestv, MinStats { executions: n })
}
