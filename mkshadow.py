#!/usr/bin/env python3
"""Generates /verif/target/shadow-c: a copy of /repo's current working tree in which the crate's
std::sync / std::thread paths are redirected to shuttle, plus a manifest with a shuttle dependency.
Nothing else is changed; the copy is regenerated on every check so it always reflects /repo."""
import os, re, shutil, sys
SRC='/repo'; DST='/verif/target/shadow-c'
os.makedirs(DST, exist_ok=True)
def write_if_changed(path, data):
    try:
        if open(path).read()==data: return
    except FileNotFoundError: pass
    os.makedirs(os.path.dirname(path), exist_ok=True)
    open(path,'w').write(data)
man=open(f'{SRC}/Cargo.toml').read()
# drop bench/dev sections that reference files we do not copy (section = from a header line to the next)
out=[]; skip=False
for line in man.splitlines(keepends=True):
    if line.startswith('['):
        hdr=line.strip()
        skip = hdr in ('[[bench]]','[dev-dependencies]') or hdr.startswith('[dev-dependencies.')
    if not skip: out.append(line)
man=''.join(out)
man=man.replace('[dependencies]\n','[dependencies]\nshuttle = "0.9.3"\n',1)
if '[workspace]' not in man: man += '\n[workspace]\n'
write_if_changed(f'{DST}/Cargo.toml', man)
n_sub=0
seen=set()
for root,dirs,files in os.walk(f'{SRC}/src'):
    for f in files:
        p=os.path.join(root,f); rel=os.path.relpath(p,SRC); seen.add(rel)
        data=open(p,encoding='utf-8',errors='surrogateescape').read()
        if f.endswith('.rs') and f!='verif_hooks.rs':
            new=re.sub(r'\bstd::sync::', 'shuttle::sync::', data)
            new=re.sub(r'\bstd::thread::', 'shuttle::thread::', new)
            # thread-locals of the crate become per simulated thread (all shuttle threads share one OS thread)
            new=re.sub(r'\bstd::thread_local!', 'shuttle::thread_local!', new)
            new=re.sub(r'(?<![:\w])thread_local!', 'shuttle::thread_local!', new)
            new=re.sub(r'\bstd::\{(\s*)sync::', r'std::{\1sync::', new)  # grouped std::{.. sync::Arc ..} stays std (Arc is std's in shuttle too)
            n_sub+= (new!=data)
            data=new
        q=os.path.join(DST,rel)
        write_if_changed(q,data)
# data files referenced by include_*! if any
for extra in ['data']:
    pass
# remove files that disappeared from /repo/src
for root,dirs,files in os.walk(f'{DST}/src'):
    for f in files:
        rel=os.path.relpath(os.path.join(root,f),DST)
        if rel not in seen: os.remove(os.path.join(root,f))
if not os.path.exists(f'{DST}/Cargo.lock'):
    shutil.copy(f'{SRC}/Cargo.lock', f'{DST}/Cargo.lock')
print(f'shadow-c: {len(seen)} files, {n_sub} with redirected paths')
