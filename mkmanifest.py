#!/usr/bin/env python3
"""Regenerates /verif/MANIFEST.json (kept in a script so the claimed set and the N/A list stay consistent)."""
import json
NA = {
"C01":"index completeness is a pure function of (list, tag set, request); no schedule, clock, fault or history in the statement, so deterministic simulation has nothing to decide",
"C02":"pattern semantics is a pure function of (pattern, URL)",
"C03":"option semantics is a pure function of (option set, request); enumerating a finite input space is not simulation",
"C04":"precedence/monotonicity is a relation between pure verdict functions; $badfilter cannot be added to a live engine, so there is no history form",
"C11":"parser totality and line independence is a pure function of the text",
"C12":"request normalisation is a pure function of the URL strings",
"C13":"redirect selection is a pure function of (rules, resource store, request)",
"C14":"removeparam rewriting is a pure string function",
"C15":"CSP merging is a pure function of (rules, request); its only nondeterminism (directive order) is declared unobservable by the property itself",
"C16":"per-site cosmetic scoping is a pure function of (rules, hostname)",
"C17":"class/id lookup is a pure function of (rules, name sets)",
"C18":"scriptlet permissions and argument encoding are pure functions of (resources, permission masks, argument strings)",
"C20":"content-blocking export is a pure function of the rule set (feature-gated converter, no state)",
}
HIST_NOTE = ("Trusted base: the simulator (seeded world/history generator, SimAlloc, getrandom shim, simulated clock hook) and the oracle "
 "engines, which are the same crate built fresh; a defect shared by a fresh and a long-lived engine is invisible. Sampling, not proof. "
 "Requests without a source URL and redirect-priority ties are outside the generated domain (see DESIGN.md).")
def chk(pid, text, tech, ref, note=HIST_NOTE, level="exploration"):
    return {
     "property_id": pid,
     "quick_cmd": "./check run %s --tier quick" % pid,
     "thorough_cmd": "./check run %s --tier thorough" % pid,
     "evidence_file": "/verif/evidence/%s.json" % pid,
     "replay_cmd_template": "./check replay {path}",
     "engine": "adsim",
     "level_claimed": {"category": level, "text": text, "design_ref": ref},
     "level_note": note,
     "technique": tech,
    }
checks = [
 chk("C05","Seeded deterministic simulation: optimise is a per-run knob and Blocker::optimize() a generated operation inside histories (tag switches, add_filter, clock/eviction noise, allocator address recycling); every query of the full probe set is compared with a never-optimised engine built from the same rules. 16k runs quick, 600k thorough; violations are minimised to a replay file.",
     "deterministic simulation: seeded operation histories with simulated clock/allocator/hash seeds vs never-optimised reference engine","DESIGN.md section 4 (C05)"),
 chk("C06","Seeded deterministic simulation of operation histories over Engine and Blocker (check/csp/cosmetic queries, use/enable/disable tags, discard policy, clock jumps around both thresholds, explicit regex eviction, optimise, add_filter, serialize, deserialize incl. foreign bytes, loads of damaged buffers that must be rejected, bursts of one operation repeated up to 65 537 times, crash-restart, resource changes) under a simulated clock, a seeded allocator that decides which freed rule address is reused, and seeded hash keys; after every state change the most recent query and then the full probe set are compared with a freshly built engine and the tag set with the model, whose answers were computed on a fresh thread; state changes can run on a helper thread; the first 192 runs are repeated in other processes with other predecessors (process-level isolation).",
     "deterministic simulation with fault injection: seeded histories, simulated clock, seeded address reuse, eviction faults vs fresh-engine oracle","DESIGN.md section 4 (C06)"),
 chk("C07","Seeded deterministic simulation of tag histories (use/enable/disable incl. empty, duplicate, unknown tags; serialize/deserialize into engines with other enabled sets; rejected loads of damaged buffers; restart) checked against a set-algebra model for tag_exists and a tag-free reference engine (enabled tags stripped from rules, disabled tagged rules deleted) for every verdict and CSP answer.",
     "deterministic simulation: seeded tag/reload histories vs set model and tag-free reference engine","DESIGN.md section 4 (C07)"),
 chk("C08","Seeded deterministic simulation: at arbitrary points of a history the engine is serialized to a simulated (fault-free) disk and reloaded by crash-restart or into a live engine holding other rules and tags; afterwards every network, CSP, cosmetic and class/id query under subsequent tag operations is compared with an engine built from the rule list the bytes came from.",
     "deterministic simulation: crash-restart/reload at arbitrary history points vs engine built from the list","DESIGN.md section 4 (C08)"),
 chk("C09","Seeded deterministic simulation with the hash-seed source (getrandom) as a simulator-owned seam: every generated rule list is built 8 times on fresh threads under different hash keys, allocator policies and order-preserving chunkings, and for ~5% of lists again in a child process (thorough: with the kernel's real getrandom); all buffers must be byte-identical, and four reload variants, a tags-enabled pair and three load histories (rejected load, image of an empty engine, then the tagged image) must reproduce the buffer exactly.",
     "deterministic simulation: simulator-owned hash seeds / threads / processes, byte-for-byte comparison of serialized buffers and reload fixpoint","DESIGN.md section 4 (C09)",
     "Trusted base: the getrandom interposition (evidence reports how many distinct iteration orders it induced), the generator. Stability across versions/platforms is not claimed."),
 chk("C10","Fault enumeration on a simulated disk between serialize_raw and deserialize: for every sampled buffer every prefix (torn write), every single-bit flip, every stale-tail cut against an older image, the lost write, 20 marker substitutions at every msgpack value offset, string substitution (29 degenerate or hostile strings for every stored string), JSON mutation and whole-value substitution are enumerated completely; zeroed/duplicated ranges, multi-byte corruption and free-form strings under every header variant are sampled. Each case is loaded into a non-empty engine under catch_unwind and allocator accounting: Err must leave bytes, tags and answers unchanged; Ok must be followed by total queries, simulated time passing (181 s, 31 s) with queries, a tag switch and re-serialization; allocation is bounded; worker-process death is a violation; every 50th case is followed by the same bytes again (an Err stays an Err) and by a fault-free load of the pristine image under another tag set that must behave like the engine the image was taken from.",
     "simulated-disk fault enumeration (torn/short/stale/bit-flip/marker) with allocator accounting and process isolation","DESIGN.md section 4 (C10)",
     "Trusted base: the fault generator and msgpack walker, the allocator accounting, catch_unwind. Buffers are sampled (16 quick / 400 thorough); per buffer the listed single-fault kinds are complete.", level="fault_enumeration"),
 chk("C19","Seeded schedule search with shuttle over the real thread-safe build (sources of /repo with std::sync/std::thread redirected to shuttle in a generated copy): 1-3 concurrent phases of 2-4 threads x 1-6 mixed queries (incl. the same URL on behalf of a page inside and a page outside a rule's $domain list) on one shared Arc<Engine>/Arc<Blocker> (tag switch / optimize / reload / resource change under exclusive access between phases), or long-lived workers behind Arc<RwLock<..>> with a mutator thread, optionally a second engine queried concurrently; regex-heavy rules, aggressive or default-like discard policy, seeded address reuse, a clock advancing on every read, scheduling points inside RegexManager, thread_local! of the crate redirected to shuttle; every concurrent answer must equal a sequentially queried twin, with no deadlock, poison, panic or two threads inside the regex manager. Plus a seed-for-seed differential of 1600 (quick) C06 histories between the default and the thread-safe build, and a compile check of the thread-safe configuration (static Send+Sync assertion).",
     "deterministic simulation: shuttle random/PCT schedule search with persisted replayable schedules + configuration differential","DESIGN.md section 4 (C19)",
     "Trusted base: shuttle 0.9.3, the textual std::sync->shuttle redirection (mkshadow.py), the yield-point hooks. Shuttle preempts only at synchronisation operations and hook points; unsynchronised data races are outside its view."),
]
m = {
 "version": 1,
 "setup_cmd": "./check setup",
 "hooks": {
   "guard": "--cfg adblock_verif (scheduling points additionally need --cfg adblock_verif_shuttle)",
   "enable": "./check sets RUSTFLAGS='--cfg adblock_verif' and builds /verif/sim against /repo by path",
   "baseline_off_cmd": "cd /repo && cargo test --workspace --no-fail-fast --offline",
   "source_commits": ["3af0957", "29c8bcf"],
   "add_only": True,
 },
 "engines": [
   {"name":"adsim","path":"/verif/sim","serves_properties":[c["property_id"] for c in checks],
    "kind_free_text":"(C19 additionally uses /verif/sim-shuttle: the same harness sources built against a generated shuttle-redirected copy of /repo/src) seeded deterministic simulator in Rust: one run = fresh thread with simulated clock (hook), seeded allocator for the rule size class, interposed getrandom for hash seeds, in-memory disk; 16 worker processes; minimiser and replay"}
 ],
 "checks": checks,
 "notes": "fix: commits in /repo: 3abe90d e53bf23 ea52f20 3a7bef6 700abd6 f98e7f0 42030f9 fc19ce0 d3ab54c fff4a50 e7354e5 e37a3a0 (see known_findings.json). Known findings are replayed from /verif/witnesses and reported as KNOWN-FINDING lines.",
 "not_applicable": [{"property_id":k,"reason":v} for k,v in NA.items()],
}
json.dump(m, open('/verif/MANIFEST.json','w'), indent=1)
print("claimed:", [c["property_id"] for c in checks])
